#!/bin/bash
# Known finding C09-MARKNULL: NOT IN over a subquery that contains a NULL. Needs a built CLI.
G=${1:-/repo/target/debug/glaredb}
OUT=$("$G" -c "SELECT x FROM (VALUES (1),(2)) t(x) WHERE x NOT IN (SELECT y FROM (VALUES (1),(NULL)) u(y))" | grep -c '│ *[0-9]')
echo "rows returned: $OUT (SQL semantics: 0)"; [ "$OUT" = "0" ]
