#!/bin/bash
# Known finding C02-DISTOR: needs a built CLI. Prints both results; they differ on the pinned tree.
G=${1:-/repo/target/debug/glaredb}
Q="SELECT * FROM (VALUES (2,1),(2,9),(0,9)) t(x,y) WHERE x > 1 OR (x > 1 AND y > 5) ORDER BY 1,2"
A=$("$G" -c "$Q" | grep -c '│ *[0-9]')
B=$("$G" -c "SET enable_optimizer TO false" -c "$Q" | grep -c '│ *[0-9]')
echo "optimized rows=$A unoptimized rows=$B"; [ "$A" = "$B" ]
