#!/bin/bash
# Known finding C04-STACK|…|Exhausted-arm-discards-drain: needs a built CLI (cargo build --offline -p glaredb).
# Exits 0 when the query returns, 124 when it hangs (it hangs on the pinned tree and after fix 087a4db70).
G=${1:-/repo/target/debug/glaredb}
timeout 20 "$G" -c "SET partitions=2" -c "SELECT * FROM (SELECT x FROM generate_series(1,1000) a(x) LEFT JOIN generate_series(1,10) b(y) ON x=y UNION ALL SELECT 1) LIMIT 2"
