#!/bin/bash
# Run the gdbfacts driver over /repo's workspace (cargo +nightly check, real build flags) and
# leave one fact file per crate in $1. Dependencies are cached in /verif/.cache/tgt; workspace
# member fingerprints are removed first so cargo cannot skip the wrapper.
set -euo pipefail
OUT="$1"; shift
REPO="${VERIF_REPO:-/repo}"
HERE="$(cd "$(dirname "$0")" && pwd)"
TGT="${VERIF_TGT:-$HERE/.cache/tgt}"
DRV="$HERE/driver/target/release/gdbfacts"
[ -x "$DRV" ] || (cd "$HERE/driver" && cargo +nightly build --release --offline >/dev/null 2>&1)
mkdir -p "$OUT" "$TGT"
rm -f "$OUT"/*.jsonl "$OUT"/*.tmp
if [ -d "$TGT/debug/.fingerprint" ]; then
  for m in glaredb glaredb_ glaredb- docgen harness logutil example_ example- test_bin bench_bin; do
    rm -rf "$TGT"/debug/.fingerprint/${m}*
  done
fi
export LD_LIBRARY_PATH="$(rustc +nightly --print sysroot)/lib"
cd "$REPO"
GDBFACTS_OUT="$OUT" RUSTFLAGS="-Zmir-opt-level=0 -Awarnings" RUSTC_WORKSPACE_WRAPPER="$DRV" \
  CARGO_TARGET_DIR="$TGT" CARGO_NET_OFFLINE=true CARGO_INCREMENTAL=0 \
  cargo +nightly check --offline "$@" > "$OUT/cargo.log" 2>&1 || { tail -40 "$OUT/cargo.log"; exit 3; }
