#!/bin/bash
# Offline setup after a fresh restore: build the gdbfacts driver (nightly, rustc_private, no deps)
# and warm the dependency target cache + facts cache with one analysis of /repo's workspace.
set -euo pipefail
cd "$(dirname "$0")"
export CARGO_NET_OFFLINE=true
(cd driver && cargo +nightly build --release --offline 2>&1 | tail -2)
python3 - <<'PY'
import sys
sys.path.insert(0, '.')
from rules import factsdb
d, info = factsdb.ensure_facts()
print("facts:", d, info)
PY
