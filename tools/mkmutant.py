#!/usr/bin/env python3
"""tools/mkmutant.py <PROP> <name> <expected-rule> <repo-relative-file> <<< python dict with old/new
Creates /verif/mutants/<PROP>/<name>.diff from a textual replacement against /repo HEAD (scratch worktree)."""
import os, subprocess, sys, tempfile
prop, name, expect, rel = sys.argv[1:5]
spec = eval(sys.stdin.read())
w = tempfile.mkdtemp(prefix="vwm.", dir="/tmp"); os.rmdir(w)
subprocess.check_call(["git", "-C", "/repo", "worktree", "add", "-q", "--detach", w, "HEAD"])
try:
    p = os.path.join(w, rel)
    t = open(p).read()
    for old, new in (spec if isinstance(spec, list) else [spec]):
        assert t.count(old) >= 1, f"pattern not found: {old[:60]}"
        t = t.replace(old, new, 1)
    open(p, "w").write(t)
    d = subprocess.check_output(["git", "-C", w, "diff"], text=True)
    os.makedirs(f"/verif/mutants/{prop}", exist_ok=True)
    open(f"/verif/mutants/{prop}/{name}.diff", "w").write(d)
    open(f"/verif/mutants/{prop}/{name}.expect", "w").write(expect + "\n")
    print("wrote", f"/verif/mutants/{prop}/{name}.diff", len(d.splitlines()), "lines")
finally:
    subprocess.call(["git", "-C", "/repo", "worktree", "remove", "--force", w])
