#!/opt/veriftools/pyvenv/bin/python
import json, jsonschema, os, sys
m = json.load(open('/verif/MANIFEST.json'))
jsonschema.validate(m, json.load(open('/root/.vp/MANIFEST.schema.json'))); print('manifest ok')
es = json.load(open('/root/.vp/EVIDENCE.schema.json'))
for c in m['checks']:
    p = c['evidence_file']
    if os.path.exists(p):
        jsonschema.validate(json.load(open(p)), es); print(c['property_id'], 'evidence ok')
    else:
        print(c['property_id'], 'evidence MISSING')
