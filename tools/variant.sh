#!/bin/bash
# tools/variant.sh <rev|patch.diff|-R:patch.diff> <prop> [<prop>...]
# Evaluates checks against a scratch worktree of /repo (outside /repo and /verif), at a revision or
# with a patch applied to HEAD; removes the worktree afterwards. Used for mutant / pre-fix testing.
set -u
SPEC="$1"; shift
W=$(mktemp -d /tmp/vw.XXXXXX)
rmdir "$W"
if [ -f "$SPEC" ]; then
  git -C /repo worktree add -q --detach "$W" HEAD
  (cd "$W" && git apply "$SPEC") || { echo "patch failed"; git -C /repo worktree remove --force "$W"; exit 9; }
else
  git -C /repo worktree add -q --detach "$W" "$SPEC"
fi
rc=0
for p in "$@"; do
  VERIF_REPO="$W" VERIF_EVIDENCE_DIR=/tmp/vw-evidence VERIF_REPLAY_DIR=/tmp/vw-replay /verif/check "$p" ${TIER:+--tier $TIER} 2>&1 | grep -v "^\[facts\]" | sed "s#$W/##g"
  r=${PIPESTATUS[0]}; [ $r -ne 0 ] && rc=$r
done
git -C /repo worktree remove --force "$W"
exit $rc
