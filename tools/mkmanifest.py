#!/usr/bin/env python3
"""Regenerates /verif/MANIFEST.json from the rule modules present under rules/ (a property is
claimed iff rules/<id>.py exists and defines CLAIM) and the NA table below."""
import importlib, json, os, sys
HERE = os.path.dirname(os.path.dirname(os.path.abspath(__file__)))
sys.path.insert(0, HERE)
ids = [json.loads(l)["id"] for l in open(os.path.join(HERE, "properties.jsonl"))]
base = json.load(open("/root/.vp/BASELINE.json"))
NA = {
    "C01": "whole-query result correctness quantifies over the rows computed at run time by arbitrary operator compositions; "
           "no necessary structural clause specific to it beyond those decided under C02/C05/C15/C18 (static analysis cannot bound values)",
}
PENDING = "static check for this property is not built yet in this session; not claimed"
checks, na = [], []
for i in ids:
    p = os.path.join(HERE, "rules", i.lower() + ".py")
    mod = None
    if os.path.exists(p):
        mod = importlib.import_module("rules." + i.lower())
    if mod is None or not hasattr(mod, "CLAIM"):
        na.append({"property_id": i, "reason": NA.get(i, PENDING)})
        continue
    c = mod.CLAIM
    checks.append({
        "property_id": i,
        "quick_cmd": f"./check {i} --tier quick",
        "thorough_cmd": f"./check {i} --tier thorough",
        "evidence_file": f"/verif/evidence/{i}.json",
        "replay_cmd_template": f"./check {i} --replay {{path}}",
        "engine": "gdbfacts+rules",
        "level_claimed": {"category": "other", "text": c["text"], "design_ref": c.get("design_ref", f"DESIGN.md §4 {i}")},
        "level_note": c["note"],
        "technique": c["technique"],
    })
m = {
    "version": 1,
    "setup_cmd": "./setup.sh",
    "hooks": {"guard": "glaredb_verif",
              "enable": "none needed: the static checks read MIR/HIR of the unmodified source through a rustc_private driver; no instrumentation hooks exist in /repo",
              "baseline_off_cmd": base["cmd"], "source_commits": [], "add_only": True},
    "engines": [
        {"name": "gdbfacts", "path": "driver/", "serves_properties": [c["property_id"] for c in checks],
         "kind_free_text": "rustc_private driver (nightly) run as RUSTC_WORKSPACE_WRAPPER under cargo check: dumps MIR event CFGs with resolved callees, HIR match tables, const registry trees, ADT/impl tables and a bounded instantiation walk from function-registry rows"},
        {"name": "rules", "path": "rules/", "serves_properties": [c["property_id"] for c in checks],
         "kind_free_text": "python rule evaluators over the facts: dominance / must-pass-through, pairing, who-may-call, sibling and table agreement, provenance; known findings keyed without line numbers"},
    ],
    "checks": checks,
    "notes": "Static analysis only (see DESIGN.md). Every check re-analyses /repo's current working tree (facts cached by content hash). "
             "Each claimed property is decided for a named structural clause that is a necessary condition of the behaviour; the behaviour itself is not decided.",
    "not_applicable": na,
}
json.dump(m, open(os.path.join(HERE, "MANIFEST.json"), "w"), indent=1)
print("claimed:", [c["property_id"] for c in checks])
