#!/bin/bash
# tools/verify_seed.sh <seed-id> <worktree> <crate> <test filter...>
# Confirms in a scratch worktree: (1) patch + demo → demo FAILS, existing tests of the crate pass apart from the demo;
# (2) demo only → demo PASSES. Writes /verif/seeded/<id>/verify.log
S=$1; W=$2; CRATE=$3; shift 3
D=/verif/seeded/$S
cd "$W" || exit 9
git checkout -q -- . ; git clean -fdq -e out -e target
export CARGO_TARGET_DIR=$W/target
{
echo "== $S: patch + demo"
git apply $D/patch.diff && git apply $D/demo.diff || echo "APPLY FAILED"
cargo test --offline -p $CRATE --lib 2>&1 | grep -E "^test result|FAILED|failed|panicked" | head -12
echo "== $S: demo only (original code)"
git checkout -q -- . ; git clean -fdq -e out -e target
git apply $D/demo.diff
cargo test --offline -p $CRATE --lib 2>&1 | grep -E "^test result|FAILED|failed" | head -6
git checkout -q -- . ; git clean -fdq -e out -e target
} > $D/verify.log 2>&1
