#!/usr/bin/env python3
"""Compare a nextest junit.xml with /root/.vp/BASELINE.json stable_pass."""
import json, sys, xml.etree.ElementTree as ET
base = set(json.load(open('/root/.vp/BASELINE.json'))['stable_pass'])
root = ET.parse(sys.argv[1] if len(sys.argv) > 1 else '/repo/target/nextest/pb/junit.xml').getroot()
passed, failed = set(), set()
for tc in root.iter('testcase'):
    tid = (tc.get('classname') or '') + '::' + (tc.get('name') or '')
    if tc.find('failure') is not None or tc.find('error') is not None: failed.add(tid)
    else: passed.add(tid)
print('baseline', len(base), 'passed', len(passed), 'missing-from-pass', sorted(base - passed)[:20])
sys.exit(1 if base - passed else 0)
