#!/bin/bash
# verify_seed5.sh <seed-id>: confirm a seeded change in the seeding agent's own scratch workspace (/tmp/seed4/<id>/{wt,target,out}):
#   demo fails with the patch, the pinned suite passes with the patch, demo passes on the original.  Log: /tmp/seed4/<id>/verify.log
ID=$1; D=/tmp/seed4/$ID; W=$D/wt; O=$D/out
export CARGO_TARGET_DIR=$D/target CARGO_NET_OFFLINE=true
exec > $D/verify.log 2>&1
( flock 9
cd $W || exit 9
git checkout -q -- . ; git status --short | head -3
demo() {
  if [ -f $O/demo.sh ]; then
    cargo build --offline -q -p glaredb -j 8 2>&1 | grep -E "^error" -A5
    ( cd $O && timeout 600 bash ./demo.sh $CARGO_TARGET_DIR/debug/glaredb ) > $D/demo_$1.out 2>&1; echo "demo.sh($1) exit=$?"
  else
    git apply $O/demo.diff || echo "DEMO-DIFF-NOAPPLY"
    crate=$(python3 -c "import json;m=json.load(open('$O/meta.json'));print(m.get('demo',''))")
    echo "demo cmd: $crate"
    ( eval "timeout 1800 $crate" ) > $D/demo_$1.out 2>&1; echo "demo.diff($1) exit=$?"
    git checkout -q -- . ; git clean -fdq crates 2>/dev/null
  fi
}
echo "== with patch"; git apply $O/patch.diff || { echo PATCH-NOAPPLY; exit 3; }
demo with
echo "== suite with patch"
cargo nextest run --workspace --no-fail-fast --tool-config-file pb:/w/lib/nextest.toml --profile pb --test-threads 8 --offline --build-jobs 8 > $D/suite_v.log 2>&1
J="$CARGO_TARGET_DIR/nextest/pb/junit.xml"; [ -f "$J" ] || J="$W/target/nextest/pb/junit.xml"
R=$(python3 /tmp/seed4/bin/baseline_cmp.py "$J"); echo "$R"
MISS=$(echo "$R" | sed -n "s/.*missing-from-pass \[\(.*\)\]/\1/p")
if [ -n "$MISS" ]; then
  for t in $(echo "$MISS" | tr -d "',"); do n=${t##*::}; echo "re-running $n alone"; cargo nextest run --workspace --tool-config-file pb:/tmp/nextest_long.toml --profile long --offline -E "test($n)" 2>&1 | grep -E "PASS|FAIL|TIMEOUT" | tail -2; done
fi
echo "== original"; git checkout -q -- .
demo without
git status --short | head -3
echo "== done"
) 9>/tmp/seed4/verify.lock
