#!/bin/bash
# tools/verify_seed_cli.sh <seed-id> <worktree>
# For seeds whose demonstration is a CLI script (demo.sh): in the scratch worktree
#  (1) apply patch.diff, build the CLI, run demo.sh → must exit non-zero
#  (2) restore the original code, rebuild, run demo.sh → must exit 0
# Writes /verif/seeded/<id>/verify.log
S=$1; W=$2
D=/verif/seeded/$S
cd "$W" || exit 9
git checkout -q -- . ; git clean -fdq -e out -e target
export CARGO_TARGET_DIR=$W/target
mkdir -p out; cp $D/demo.sh out/demo.sh; chmod +x out/demo.sh
{
echo "== $S: patch applied"
git apply $D/patch.diff || echo "APPLY FAILED"
cargo build --offline -p glaredb 2>&1 | grep -E "^error|Finished" | head -3
bash out/demo.sh 2>&1 | tail -15
echo "demo exit with patch: ${PIPESTATUS[0]}"
echo "== $S: original code"
git checkout -q -- .
cargo build --offline -p glaredb 2>&1 | grep -E "^error|Finished" | head -3
bash out/demo.sh 2>&1 | tail -6
echo "demo exit on original: ${PIPESTATUS[0]}"
} > $D/verify.log 2>&1
