#!/bin/bash
# tools/verify_seed4.sh <seed-id> [crate-for-demo.diff] [test filter]
# Confirms a seeded change in the scratch worktree /tmp/vv/wt (target /tmp/vv/target), outside /repo and /verif:
#  (1) patch.diff applies to /repo HEAD and the workspace test targets build
#  (2) the demonstration FAILS with the patch (demo.sh <binary> exits non-zero, or the tests added by demo.diff fail)
#  (3) the pinned 898-test suite passes with the patch (nextest + baseline comparison)
#  (4) the demonstration PASSES on the original code
# Writes /verif/seeded/<id>/verify.log
S=$1; CRATE=${2:-glaredb_core}; FILTER=${3:-}
mkdir -p /tmp/vv; exec 9>/tmp/vv/verify.lock; flock 9   # one verification at a time (shared scratch worktree)
D=/verif/seeded/$S
W=/tmp/vv/wt
export CARGO_TARGET_DIR=/tmp/vv/target CARGO_NET_OFFLINE=true
cd "$W" || exit 9
git checkout -q --detach "$(git -C /repo rev-parse HEAD)"; git checkout -q -- . ; git clean -fdq
run_demo() {
  if [ -f $D/demo.sh ]; then
    cargo build --offline -p glaredb 2>&1 | grep -E "^error|Finished" | head -3
    # scheduling-dependent demonstrations: three runs, every exit status is recorded
    for k in 1 2 3; do
      (cd $D && bash ./demo.sh $CARGO_TARGET_DIR/debug/glaredb) > /tmp/vv/demo.out 2>&1; rc=$?
      [ $k = 1 ] && tail -12 /tmp/vv/demo.out
      echo "demo exit (run $k): $rc"
    done
  else
    git apply $D/demo.diff || echo "DEMO APPLY FAILED"
    cargo test --offline -p $CRATE --lib $FILTER 2>&1 | grep -E "^test .*(FAILED|ok)$|^test result|panicked at|error(\[|:)" | grep -v '\.\.\. ok' | head -12
  fi
}
{
echo "== $S @ $(git -C /repo rev-parse --short HEAD): patch applied"
git apply $D/patch.diff || echo "PATCH APPLY FAILED"
run_demo
git checkout -q -- . ; git clean -fdq; git apply $D/patch.diff
echo "== $S: pinned suite with the patch"
cargo nextest run --workspace --no-fail-fast --tool-config-file pb:/w/lib/nextest.toml --profile pb --test-threads 8 --offline > /tmp/vv/suite.log 2>&1
J=$CARGO_TARGET_DIR/nextest/pb/junit.xml; [ -f "$J" ] || J=$W/target/nextest/pb/junit.xml
python3 /verif/tools/baseline_cmp.py "$J" | tee /tmp/vv/cmp.out; rc=${PIPESTATUS[0]}; echo "suite exit: $rc"
if [ $rc -ne 0 ]; then
  # tests that time out under machine load (300 s nextest limit) are re-run alone
  for t in $(python3 -c "import re,sys; print(' '.join(x.split('::',1)[1] for x in re.findall(r\"'([^']+)'\", open('/tmp/vv/cmp.out').read())))"); do
    echo "re-run alone: $t"
    # same test, alone, with a longer limit (the pinned profile stops a test after 300 s; on the loaded 16-core sandbox this CPU-bound
    # codec test needs 150-400 s in a debug build)
    printf '[profile.long]\nfail-fast = false\nslow-timeout = { period = "120s", terminate-after = 10 }\n' > /tmp/vv/nextest_long.toml
    cargo nextest run --workspace --offline --no-fail-fast --tool-config-file pb:/tmp/vv/nextest_long.toml --profile long "$t" 2>&1 | grep -E "PASS|FAIL|TIMEOUT|Summary" | tail -3
  done
fi
echo "== $S: original code"
git checkout -q -- . ; git clean -fdq
run_demo
git checkout -q -- . ; git clean -fdq
} > $D/verify.log 2>&1
tail -30 $D/verify.log
