"""Monitor model for C04: critical sections over Mutex-guarded structs that hold waker slots.
For every function: per lock acquisition an ordered set of guarded events (reads, writes, method
calls on fields, wakes, parks), derived from MIR through guard-deref provenance."""
import collections, re
from .mir import Fn, op_const, switch_edges, lock_calls, lock_class, guard_of, guarded_accesses, is_lock_call

NON_MUTATING = {"current", "len", "is_some", "is_none", "is_empty", "get", "iter", "as_ref", "first", "last", "contains", "clone",
                "eq", "ne", "deref", "as_ptr", "capacity", "peek", "front", "back"}
INIT_METHODS = {"init_for_partitions", "set", "resize", "reserve", "with_capacity"}
WAKE_METHODS = {"wake_all", "wake", "take", "into_iter", "iter_mut", "deref_mut", "drain"}
PARK_METHODS = {"store"}
ACCESSORS = {"index_mut", "index", "get_mut", "deref_mut", "as_mut", "iter_mut", "as_mut_slice", "unwrap", "expect"}


class Event:
    __slots__ = ("bb", "kind", "field", "method", "line", "call", "value", "order")

    def __init__(self, bb, kind, field, method, line, call=None, value=None, order=0):
        self.bb, self.kind, self.field, self.method, self.line, self.call, self.value, self.order = bb, kind, field, method, line, call, value, order

    def __repr__(self):
        return f"{self.line}:{self.kind}:{self.field}{':' + self.method if self.method else ''}"


class Section:
    def __init__(self, fn, lock, ty, path):
        self.fn, self.lock, self.ty, self.path = fn, lock, ty, path
        self.events = []
        self.guard = lock.dst[0]

    def release_blocks(self):
        """blocks whose terminator releases the guard: drop(g) terminator, mem::drop(move g), or return"""
        fn, g = self.fn, self.guard
        out = set()
        for b in range(fn.n):
            if fn.bbs[b]["cl"]:
                continue
            t = fn.term(b)
            if t[0] == "drop" and t[1][0] == g and not t[1][1]:
                out.add(b)
            elif t[0] == "call" and "mem::drop" in str(t[1].get("def", "")):
                for a in t[2]:
                    if a[0] == "m":
                        o = fn.origin(a, at=b)
                        if o[0] == "call" and o[1] is self.lock:
                            out.add(b)
            elif t[0] == "ret":
                out.add(b)
        return out

    def blocks(self):
        """blocks inside the critical section (from the lock's return block until release)"""
        fn = self.fn
        start = self.lock.target
        if start is None:
            return set()
        rel = self.release_blocks()
        seen, st = set(), [start]
        while st:
            b = st.pop()
            if b in seen:
                continue
            seen.add(b)
            if b in rel:
                continue
            # re-acquiring the same lock variable ends the section as well
            st.extend(fn.tsucc[b])
        return seen


def sections_of(fn, monitor_types):
    """critical sections of `fn` over monitor structs"""
    lcs = lock_calls(fn)
    if not lcs:
        return []
    secs = {}
    for lc in lcs:
        ty, path = lock_class(fn, lc)
        if ty in monitor_types:
            secs[lc.bb] = Section(fn, lc, ty, path)
    if not secs:
        return []
    # field accesses
    assigns_at = {}
    for b, i, pl, rv, ln in fn.assigns():
        assigns_at[(b, i)] = pl
    for (b, i, kind, lc, flds, ln, rv) in guarded_accesses(fn):
        sec = secs.get(lc.bb)
        if sec is None or not flds:
            continue
        field = flds[0]
        if kind == "w":
            k = op_const(rv[1]) if rv[0] == "use" else None
            val = k.get("v") if k and "v" in k else None
            if rv[0] == "agg" and rv[1][0] == "adt" and rv[1][1].endswith("option::Option"):
                val = rv[1][2]
            elif rv[0] == "use" and rv[1][0] in ("c", "m"):
                o = fn.origin(rv[1], at=b)
                if o[0] == "rv" and o[1][0] == "agg" and o[1][1][0] == "adt" and o[1][1][1].endswith("option::Option"):
                    val = o[1][1][2]
            sec.events.append(Event(b, "w", field, None, ln, value=val))
        elif kind == "r":
            ev = Event(b, "r", field, None, ln)
            ev.value = assigns_at[(b, i)]       # place receiving the value read
            sec.events.append(ev)
        elif kind == "ref":
            dst = assigns_at[(b, i)][0]
            # the method invoked on the reference (first call that takes it as receiver, possibly after a reborrow)
            tgt = {dst}
            for b2, i2, pl2, rv2, ln2 in fn.assigns():
                if not pl2[1] and rv2[0] in ("ref", "use", "raw") and ((rv2[0] == "use" and rv2[1][0] in ("c", "m") and rv2[1][1][0] in tgt)
                                                                      or (rv2[0] in ("ref", "raw") and rv2[2][0] in tgt)):
                    tgt.add(pl2[0])
            m = None
            for c in fn.calls():
                if c.args and c.args[0][0] in ("c", "m") and c.args[0][1][0] in tgt:
                    m = c
                    break
            # accessor chains: pull_wakers[idx].store(..), pull_wakers.iter_mut().for_each(..): follow the accessor's result
            hops = 0
            while m is not None and m.name.rsplit("::", 1)[-1] in ACCESSORS and hops < 3 and not m.dst[1]:
                nxt = None
                t2 = {m.dst[0]}
                for b2, i2, pl2, rv2, ln2 in fn.assigns():
                    if not pl2[1] and ((rv2[0] == "use" and rv2[1][0] in ("c", "m") and rv2[1][1][0] in t2)
                                       or (rv2[0] in ("ref", "raw") and rv2[2][0] in t2)):
                        t2.add(pl2[0])
                for c in fn.calls():
                    if c is not m and c.args and c.args[0][0] in ("c", "m") and c.args[0][1][0] in t2:
                        nxt = c
                        break
                if nxt is None:
                    break
                m = nxt
                hops += 1
            if m is None:
                sec.events.append(Event(b, "r", field, None, ln))
            else:
                name = m.name.rsplit("::", 1)[-1]
                if name in ("for_each", "map", "all", "any") or "Iterator" in m.name:
                    name = "iter_mut"      # iteration over a slot vector with a closure (wake loop)
                sec.events.append(Event(m.bb, "call", field, name, m.line, call=m))
    # method calls on the whole guarded struct: `inner.is_complete()` — summarised by the fields the callee reads
    for c in fn.calls():
        if not c.args or is_lock_call(c) or c.name.endswith("::deref") or c.name.endswith("::deref_mut"):
            continue
        a = c.args[0]
        if a[0] not in ("c", "m"):
            continue
        lc, flds = guard_of(fn, a, at=c.bb)
        if lc is not None and not flds and lc.bb in secs and "mem::drop" not in c.name:
            secs[lc.bb].events.append(Event(c.bb, "mcall", None, c.name, c.line, call=c))
    return list(secs.values())


def callee_field_reads(facts, callee):
    """fields of `self` read by a (small) method of the monitor struct"""
    rec = facts.fn(callee)
    if rec is None:
        return []
    fn = Fn(rec)
    out = set()
    for b, i, pl, rv, ln in fn.assigns():
        def scan(x):
            if isinstance(x, list):
                if len(x) == 2 and isinstance(x[0], int) and isinstance(x[1], list) and x[0] == 1:
                    for p in x[1]:
                        if isinstance(p, list) and p[0] == "f":
                            out.add(p[1])
                            break
                for y in x:
                    scan(y)
        scan(rv)
    for c in fn.calls():
        for a in c.args:
            if a[0] in ("c", "m"):
                o = fn.origin(a, at=c.bb)
                if o[0] == "arg" and o[1] == 1:
                    for p in o[2]:
                        if isinstance(p, list) and p[0] == "f":
                            out.add(p[1])
                            break
    return sorted(out)


def monitor_types(facts):
    """struct path -> (waker slot fields, all fields): structs with a field whose type mentions Waker"""
    out = {}
    for a in facts.records("adt"):
        if a["kind"] != "struct" or not a["variants"] or "testutil" in a["id"]:
            continue
        fl = a["variants"][0]["fields"]
        w = [x[0] for x in fl if "Waker" in x[1]]
        if w:
            out[a["id"]] = (w, [x[0] for x in fl])
    return out
