"""C09 — correlated subqueries, CTEs and views mean what nested evaluation means (narrow clause).
  C09-CTE  a CTE body is evaluated once: a reference may inline (clone) the bound CTE body only on a path guarded by a
           test that makes double evaluation unobservable — a volatility predicate or a reference count — in addition to
           the syntactic `materialized` flag.   (volatility guards shared with C02-VOL are evaluated under C02.)
  C09-GROUPIDX  decorrelation through an Aggregate: the position inserted into every grouping set is the same expression as the
           column index stored in the column map for that correlated column
Not decided: decorrelation correctness in general (value-level plan rewriting)."""
import re
from .framework import RuleResult
from .mir import Fn, controlling_calls, switch_edges, resolve_bool

EXPLANATION = ("Edge-dominance rule on the MIR of FromBinder::bind_cte: the clone of the bound CTE body (inlining it at this reference) must be "
               "controlled by a volatility / single-reference test, not only by the syntactic MATERIALIZED flag; otherwise a CTE referenced "
               "twice is evaluated twice and a volatile body yields two different relations. Decorrelation rewrites are not decided.")
NOT_DECIDED = ["subquery decorrelation equivalence", "view expansion", "lateral join binding"]

GUARD_NAME = re.compile(r"volatil|ref_?count|reference_count|num_references|single_use|use_count", re.I)


def run(ctx):
    return _rule_cte(ctx) + [rule_groupidx(ctx["facts"]), rule_matshare(ctx["facts"]), rule_marknull(ctx["facts"]),
                             rule_existscnt(ctx["facts"]), rule_nullsafe(ctx["facts"]), rule_anycast(ctx["facts"]), rule_magicdistinct(ctx["facts"])]


def _rule_cte(ctx):
    facts = ctx["facts"]
    r = RuleResult("C09-CTE", "inlining a CTE body at a reference is guarded by a volatility / reference-count test", floor=1)
    recs = facts.fns_matching(lambda i: "bind_from::FromBinder" in i and i.endswith("::bind_cte"))
    if not recs:
        r.missing_anchor("FromBinder::bind_cte")
        return [r]
    rec = recs[0]
    fn = Fn(rec)
    r.functions.add(fn.id)
    clones = []
    for c in fn.calls():
        if c.name.endswith("Clone>::clone") or c.decl.endswith("Clone::clone"):
            o = fn.origin(c.args[0], through_calls=("::deref", "::as_ref"), at=c.bb)
            flds = [p[1] for p in (o[2] if len(o) > 2 and isinstance(o[2], list) else []) if isinstance(p, list) and p[0] == "f"]
            if flds and flds[-1] == "bound":
                clones.append(c)
    if not clones:
        r.inst({"fn": fn.id, "inlines_cte_body": False})
        r.notes.append("bind_cte no longer clones the bound body (CTEs are never inlined): nothing to guard")
        return [r]
    for c in clones:
        r.call_sites += 1
        guards = []
        for g, truth in controlling_calls(fn, c.bb):
            guards.append(g.name.rsplit("::", 1)[-1])
        # bool field reads controlling the clone
        fld_guards = []
        for b in range(fn.n):
            t = fn.term(b)
            if t[0] == "switch" and t[4] == "bool" and t[1][0] in ("c", "m") and not t[1][1][1]:
                cur = t[1][1][0]
                for _ in range(4):
                    ds = [d for d in fn.defs.get(cur, []) if d[0] == "a" and not (d[3][0] == "use" and d[3][1][0] == "k")]
                    if len(ds) != 1:
                        break
                    rv = ds[0][3]
                    if rv[0] == "un":
                        cur = rv[2][1][0]
                        continue
                    if rv[0] == "use" and rv[1][0] in ("c", "m"):
                        fl = [p[1] for p in rv[1][1][1] if isinstance(p, list) and p[0] == "f"]
                        if fl:
                            if any(fn.edge_dominates(b, tgt, c.bb) for v, tgt in switch_edges(t)):
                                fld_guards.append(fl[-1])
                            break
                        cur = rv[1][1][0]
                        continue
                    break
        ok = any(GUARD_NAME.search(g) for g in guards + fld_guards)
        r.inst({"fn": fn.id, "clone_line": c.line, "guards": sorted(set(guards + fld_guards))}, ok)
        if not ok:
            r.violate(fn.id, "inline-cte-body", f"the bound CTE body is cloned into this reference guarded only by {sorted(set(guards + fld_guards))}: a CTE referenced twice is "
                      "evaluated twice (WITH c AS (SELECT random() r) SELECT a.r = b.r FROM c a, c b returns false)", rec["file"], c.line)
    return [r]


def _expr_key(fn, op, at, depth=3):
    """canonical shape of an integer expression: ('add', k1, k2) | leaf identity"""
    if op[0] == "k":
        return ("const", op[1].get("v"))
    o = fn.origin(op, at=at)
    if o[0] == "rv" and o[1][0] == "bin" and depth > 0:
        opn = o[1][1].replace("WithOverflow", "").replace("Unchecked", "")
        # origin() of `(_t.0)` of a checked op lands on the bin rvalue; operands are evaluated where the op is
        return (opn, _expr_key(fn, o[1][2], None, depth - 1), _expr_key(fn, o[1][3], None, depth - 1))
    proj = o[2] if len(o) > 2 and isinstance(o[2], list) else []
    names = tuple(pp[1] for pp in proj if isinstance(pp, list) and pp[0] == "f")
    if o[0] in ("arg", "local"):
        return (o[0], fn.local_name(o[1]), names)
    if o[0] == "call":
        return ("call", o[1].name.rsplit("::", 1)[-1], o[1].bb, names)
    return (o[0],)


def rule_groupidx(facts):
    """Decorrelation through an Aggregate appends each correlated column to GROUP BY. The position it gets is used twice: it is
    inserted into every grouping set and stored in the column map that rewrites references above the aggregate. Both have to be
    the same expression (the position of the pushed group expression); if they differ, the correlated column is missing from
    the grouping sets (NULL for every group) or the join condition above compares a different column."""
    r = RuleResult("C09-GROUPIDX", "DependentJoinPushdown (Aggregate arm): the index added to every grouping set equals the column index "
                   "recorded in the column map for the same correlated column", floor=1)
    recs = facts.fns_matching(lambda i: i.endswith("plan_subquery::DependentJoinPushdown::pushdown"))
    if not recs:
        r.missing_anchor("DependentJoinPushdown::pushdown")
        return r
    rec = recs[0]
    fn = Fn(rec)
    r.functions.add(fn.id)
    pushes = [c for c in fn.calls() if c.name.endswith("Vec::<T, A>::push") and "group_exprs" in str(fn.origin(c.args[0], at=c.bb))]
    inserts = [c for c in fn.calls() if c.name.endswith("BTreeSet::<T, A>::insert") and (c.callee.get("res_args") or c.callee.get("args") or [""])[0] == "usize"]
    refs = []
    for b, i, pl, rv, ln in fn.assigns():
        if rv[0] == "agg" and rv[1][0] == "adt" and rv[1][1].endswith("column_expr::ColumnReference") and "column" in rv[1][3]:
            refs.append((b, rv[2][rv[1][3].index("column")], ln))
    if not pushes or not inserts or not refs:
        r.missing_anchor("group_exprs.push / grouping set insert / ColumnReference construction in the Aggregate arm")
        return r
    for p in pushes:
        ins = [c for c in inserts if c.bb in fn.reachable_from(p.bb)]
        rfs = [x for x in refs if x[0] in fn.reachable_from(p.bb)]
        for c in ins:
            r.call_sites += 1
            ki = _expr_key(fn, c.args[1], c.bb)
            for b, op, ln in rfs:
                kr = _expr_key(fn, op, b)
                ok = ki == kr
                r.inst({"fn": fn.id, "grouping_set_insert_line": c.line, "column_map_line": ln, "same_expression": ok}, ok)
                if not ok:
                    r.violate(fn.id, "group-index-disagreement", f"the index inserted into the grouping sets (line {c.line}) and the column index recorded in "
                              f"the column map (line {ln}) are different expressions ({ki} vs {kr}): the appended correlated column is not grouped on, "
                              "or references above the aggregate point at another column", rec["file"], c.line)
    return r


CLAIM = {
    "text": "Edge-dominance rule on the binder's CTE reference path: inlining is only sound under a volatility or single-reference guard. "
            "Whether a CTE is evaluated once is visible in this code shape for all queries; the correctness of subquery decorrelation is "
            "value-level plan rewriting and is not decided in general; one positional-agreement clause of it is (the index a decorrelated "
            "aggregate adds to its grouping sets is the index its column map records). Plus the sharing discipline of materializations: filters above one MaterializationScan enter the shared plan only under a scan-count test, and once anything reads the scan count every path that builds a MaterializationScan increments it. Plus: the functions that write the LeftMark join's verdict column can write NULL (IN over a subquery is three-valued) - two known findings."
            " Plus three binding/decorrelation clauses: EXISTSCNT (the COUNT behind an uncorrelated EXISTS counts rows), NULLSAFE (outer rows are joined back to their decorrelated result with IS NOT DISTINCT FROM), ANYCAST (the left side of ANY/IN is not cast to the subquery's type by the binder)."
            " Plus EXISTSCNT, NULLSAFE, ANYCAST (binding/decorrelation clauses) and MAGICDISTINCT: the magic materialization scan is always planned with its duplicate-eliminating aggregate.",
    "note": "trusted: rustc MIR; guard recognised by callee / field names matching volatile|ref_count|single_use (documented in rules/c09.py)",
    "technique": "static analysis: MIR edge-dominance guard rule (rustc_private driver)",
}


MATSCAN = "glaredb_core::logical::logical_materialization::LogicalMaterializationScan"


def _reads_scan_count(facts):
    """functions (outside the counter's own increment) that read Materialization.scan_count"""
    out = []
    for rec in facts.all_fns(["glaredb_core"], contains="scan_count"):
        if "scan_count" not in str(rec["bbs"]) or "::tests::" in rec["id"]:
            continue
        fn = Fn(rec)
        for b, i, pl, rv, ln in fn.assigns():
            def has_read(x):
                if isinstance(x, list):
                    if len(x) == 2 and x[0] in ("c", "m") and isinstance(x[1], list) and len(x[1]) == 2 and isinstance(x[1][1], list):
                        return any(isinstance(p, list) and p[0] == "f" and p[1] == "scan_count" and "Materialization" in p[2] for p in x[1][1])
                    return any(has_read(y) for y in x)
                return False
            if has_read(rv):
                # the read-modify-write of the counter itself does not count
                wr = any(isinstance(p, list) and p[0] == "f" and p[1] == "scan_count" for p in pl[1])
                feeds_own = False
                for b2, i2, pl2, rv2, ln2 in fn.assigns():
                    if any(isinstance(p, list) and p[0] == "f" and p[1] == "scan_count" for p in pl2[1]) and pl[0] in _locals_of(rv2):
                        feeds_own = True
                if not wr and not feeds_own:
                    out.append((fn.id, ln))
    return out


def _locals_of(rv):
    from .mir import operand_locals
    return operand_locals(rv, set())


def rule_matshare(facts):
    """A materialized CTE / decorrelation materialization is one plan shared by all of its scans. (A) The optimizer may push the
    filters above one scan into the shared plan only if that scan is the only one - i.e. under a test of the scan count. (B) Such a
    test is only as good as the counter: every construction of a MaterializationScan node is paired with an increment of the
    materialization's scan count on every successful path. B is enforced as soon as anything reads the counter."""
    r = RuleResult("C09-MATSHARE", "filters above one MaterializationScan never enter the shared materialized plan except under a scan-count test, and "
                   "the scan count is incremented on every path that builds a MaterializationScan", floor=4)
    # ---- (A)
    guard_exists = False
    recs = facts.fns_matching(lambda i: "optimizer::filter_pushdown::FilterPushdown" in i and "materializ" in i.rsplit("::", 1)[-1])
    if not recs:
        r.missing_anchor("FilterPushdown::pushdown_materialized_scan")
    for rec in recs:
        fn = Fn(rec)
        r.functions.add(fn.id)
        nested = [c for c in fn.calls() if c.name.endswith("FilterPushdown::optimize") or c.name.endswith("OptimizeRule>::optimize")]
        # nested instance = receiver of optimize that is not `self`
        for c in nested:
            o = fn.origin(c.args[0], at=c.bb)
            if o[0] == "arg" and o[1] == 1:
                continue
            recv = o[1] if o[0] == "local" else None
            feeds = []
            for x in fn.calls():
                if x is c or not x.args:
                    continue
                ox = fn.origin(x.args[0], at=x.bb)
                if ox[0] == "local" and ox[1] == recv and ox[1] is not None and not x.name.endswith("::default") and x.bb != c.bb:
                    # something is put into the nested pushdown: does it come from self's filters?
                    feeds.append(x)
            ok = True
            for x in feeds:
                guarded = False
                for b in range(fn.n):
                    t = fn.term(b)
                    if t[0] != "switch":
                        continue
                    for s_ in fn.bbs[b]["s"] + [s2 for p in fn.pred[b] for s2 in fn.bbs[p]["s"]]:
                        if s_[0] == "a" and "scan_count" in str(s_[2]) and s_[2][0] in ("bin", "use"):
                            pass
                    src = fn.origin(t[1], at=b) if t[1][0] in ("c", "m") else None
                    txt = str(src)
                    if "scan_count" in txt and any(fn.edge_dominates(b, tg, x.bb) for _v, tg in switch_edges(t)):
                        guarded = True
                if not guarded:
                    # look through bool temporaries: `let single = mat.scan_count == 1; … if single {`
                    for b, i, pl, rv, ln in fn.assigns():
                        if rv[0] == "bin" and rv[1] in ("Eq", "Le", "Lt") and "scan_count" in str(rv) and not pl[1]:
                            L = pl[0]
                            for b2 in range(fn.n):
                                t2 = fn.term(b2)
                                if t2[0] == "switch" and t2[1][0] in ("c", "m"):
                                    o2 = fn.origin(t2[1], at=b2)
                                    root = t2[1][1][0]
                                    chain = {root}
                                    for _ in range(6):
                                        for d in list(chain):
                                            for dd in fn.defs.get(d, []):
                                                if dd[0] == "a":
                                                    chain |= _locals_of(dd[3])
                                    if L in chain and any(fn.edge_dominates(b2, tg, x.bb) for _v, tg in switch_edges(t2)):
                                        guarded = True
                if guarded:
                    guard_exists = True
                else:
                    ok = False
            r.call_sites += 1
            r.inst({"fn": fn.id, "nested_pushdown_fed_by": [x.name.rsplit("::", 1)[-1] for x in feeds], "under_scan_count_test": ok}, ok)
            if not ok:
                r.violate(fn.id, "filters-into-shared-materialization", "filters collected above one MaterializationScan are handed to the optimizer of the shared "
                          "materialized plan without a scan-count test: every other scan of the same CTE/materialization sees the filtered rows",
                          rec["file"], c.line)
    readers = _reads_scan_count(facts)
    load_bearing = bool(readers) or guard_exists
    # ---- (B)
    nsites = 0
    for rec in facts.all_fns(["glaredb_core"], contains=MATSCAN):
        if MATSCAN not in str(rec["bbs"]) or "::tests::" in rec["id"]:
            continue
        if rec["id"].endswith("as std::clone::Clone>::clone"):
            r.exempt(rec["id"], "derived Clone of the node itself: whoever clones a plan accounts for the copy (SubqueryPlanner does), not the impl")
            continue
        fn = Fn(rec)
        ctors = [(b, ln) for b, i, pl, rv, ln in fn.assigns() if rv[0] == "agg" and rv[1][0] == "adt" and rv[1][1] == MATSCAN]
        if not ctors:
            continue
        incs = [c.bb for c in fn.calls() if c.name.endswith("inc_materialization_scan_count")]
        errs = [c.bb for c in fn.calls() if c.name.endswith("from_residual")]
        r.functions.add(fn.id)
        for b, ln in ctors:
            nsites += 1
            before = b in fn.reach(0, avoid_blocks=incs, threaded=False) if b not in incs else False
            after_exits = [e for e in fn.exits if e in fn.reachable_from(b, avoid=incs + errs)]
            ok = not (before and after_exits)
            r.inst({"fn": fn.id, "scan_node_line": ln, "increments": len(incs), "paired_on_every_path": ok, "counter_is_read": load_bearing}, ok or not load_bearing)
            if not ok and load_bearing:
                r.violate(fn.id, "scan-without-count", f"a MaterializationScan is built at line {ln} on a path that never increments the materialization's scan count, "
                          f"and the count is consulted ({(readers or [('the pushdown guard', 0)])[0][0].rsplit('::', 1)[-1]}): a materialization scanned twice looks "
                          "single-use and rewrites that are only sound for a single scan are applied to the shared plan", rec["file"], ln)
    if nsites < 3:
        r.missing_anchor(f"LogicalMaterializationScan construction sites (found {nsites}, expected at least 3)")
    r.notes.append(f"scan_count readers: {readers or 'none (pairing recorded, not yet load-bearing)'}")
    return r


def rule_marknull(facts):
    """`x IN (subquery)` / `x NOT IN (subquery)` is planned as a LeftMark join whose extra column is the IN verdict. SQL's verdict is
    three-valued: with no equal element it is NULL (not FALSE) when x is NULL or the subquery produced a NULL. A mark column that can only
    be written TRUE/FALSE cannot express that, so `NOT IN` over a subquery with a NULL keeps rows it must drop. Decided: each function
    that materialises the mark column has a path that invalidates (NULLs) an entry of it."""
    r = RuleResult("C09-MARKNULL", "the functions that write the LeftMark join's verdict column can write NULL (the IN verdict is three-valued)", floor=2)
    OPS = "glaredb_core::execution::operators::"
    for rec in facts.fns_matching(lambda i: (OPS + "hash_join::" in i or OPS + "nested_loop_join::" in i) and "left_mark" in i.rsplit("::", 1)[-1]
                                  and "::tests::" not in i):
        if rec.get("dk") == "Closure":
            continue
        fn = Fn(rec)
        r.functions.add(fn.id)
        nulls = [c for c in fn.calls() if any(c.name.endswith(x) for x in ("Validity::set_invalid", "Array::put_validity", "Array::new_null", "PutBuffer::<M>::put_null",
                                                                           "Validity::new_all_invalid"))]
        # writers only: functions that write a bool column (direct store into a PhysicalBool addressable or read_arrays into the match column)
        writes = "PhysicalBool" in str(rec["bbs"]) or "read_arrays" in str(rec["bbs"])
        if not writes:
            continue
        ok = bool(nulls)
        r.inst({"fn": fn.id, "writes_verdict_column": True, "can_write_null": ok}, ok)
        if not ok:
            r.violate(fn.id, "mark-column-two-valued", "the LeftMark verdict column is written as a plain bool (matched / not matched) and never NULL: "
                      "`x NOT IN (subquery containing NULL)` keeps rows for which the SQL verdict is unknown", rec["file"], rec["line"])
    return r


SP = "glaredb_core::logical::planner::plan_subquery::SubqueryPlanner::"


def _vec_elements(fn, op, at):
    """operands of the `vec![..]` literal an operand comes from (None when it is not a vec literal)"""
    o = fn.origin(op, at=at)
    if o[0] != "call" or "box_assume_init_into_vec" not in o[1].name:
        return None
    for st in fn.rec["bbs"][o[1].bb]["s"]:
        if st[0] == "a" and st[2][0] == "agg" and st[2][1] and st[2][1][0] == "array":
            return [(e, o[1].bb) for e in st[2][2]]
    return None


def rule_existscnt(facts):
    """EXISTS is about rows, not values. The uncorrelated form is planned as LIMIT 1 -> COUNT(..) -> count = 1; COUNT over a column of
    the subquery skips NULLs, so `EXISTS (SELECT NULL)` would be false. The COUNT's argument must not be a column expression."""
    r = RuleResult("C09-EXISTSCNT", "the COUNT that implements an uncorrelated EXISTS counts rows, not the values of a subquery column", floor=1)
    rec = facts.fn(SP + "plan_uncorrelated")
    if rec is None:
        r.missing_anchor(SP + "plan_uncorrelated")
        return r
    fn = Fn(rec)
    r.functions.add(fn.id)
    for c in fn.calls():
        if not c.name.endswith("expr::bind_aggregate_function") or "FUNCTION_SET_COUNT" not in str(fn.origin(c.args[0], at=c.bb)):
            continue
        elems = _vec_elements(fn, c.args[1], c.bb)
        if elems is None:
            r.missing_anchor("COUNT argument list in plan_uncorrelated is not a vec literal")
            continue
        bad = []
        for e, bb in elems:
            o = fn.origin(e, through_calls=("Into>::into", "From>::from"), at=bb)
            if o[0] == "rv" and o[1][0] == "agg" and o[1][1][:3] == ["adt", "glaredb_core::expr::Expression", "Column"]:
                bad.append("Expression::Column")
            elif o[0] == "call" and o[1].name.endswith("expr::column"):
                bad.append("expr::column")
        r.call_sites += 1
        r.inst({"fn": fn.id, "count_args": len(elems), "column_args": bad}, not bad)
        if bad:
            r.violate(fn.id, "exists-counts-column", "the COUNT behind an uncorrelated EXISTS takes a column of the subquery: NULLs are not counted, `EXISTS (SELECT NULL)` is false",
                      rec["file"], c.line)
    return r


def rule_nullsafe(facts):
    """Decorrelation hands the flattened side the DISTINCT outer values of the correlated columns (NULL included) and joins the result
    back to the outer rows on those columns. With `=` an outer row whose correlated value is NULL never finds its own group; the
    comparison has to be IS NOT DISTINCT FROM."""
    r = RuleResult("C09-NULLSAFE", "the join that reunites outer rows with their decorrelated subquery result compares correlated columns null-safely", floor=2)
    for name in ("plan_lateral_join", "plan_left_right_for_correlated"):
        rec = facts.fn(SP + name)
        if rec is None:
            r.missing_anchor(SP + name)
            continue
        fn = Fn(rec)
        r.functions.add(fn.id)
        n = 0
        for c in fn.calls():
            if not c.name.endswith("expr::compare"):
                continue
            o = fn.origin(c.args[0], at=c.bb)
            if not (o[0] == "rv" and o[1][0] == "agg" and o[1][1][0] == "adt" and o[1][1][1].endswith("ComparisonOperator")):
                continue        # operator comes from the query (user join condition), not generated here
            n += 1
            op = o[1][1][2]
            ok = op == "IsNotDistinctFrom"
            r.call_sites += 1
            r.inst({"fn": fn.id, "operator": op}, ok)
            if not ok:
                r.violate(fn.id, f"correlated-join:{op}", f"outer rows are joined back to the decorrelated subquery with {op}: a NULL correlated value matches nothing "
                          "(`select (select coalesce(a.x, 0)) from a` is NULL for a.x NULL)", rec["file"], c.line)
        if n == 0:
            r.missing_anchor(f"{name}: no generated comparison on the correlated columns")
    return r


def rule_anycast(facts):
    """`x IN (subquery)` compares x with the subquery's column; the comparison coerces both sides. Casting only x to the column's type
    beforehand is lossy (2.5 IN (SELECT 2) became true) or fails (3000000000 IN (SELECT 5)). bind_subquery must not cast."""
    r = RuleResult("C09-ANYCAST", "binding `expr op ANY (subquery)` does not cast the left expression to the subquery's column type", floor=1)
    recs = facts.fns_matching(lambda i: i.endswith("ExpressionBinder::bind_subquery") or i.endswith("::bind_subquery"))
    recs = [x for x in recs if "expr_binder" in x["id"]]
    if not recs:
        r.missing_anchor("expr_binder::*::bind_subquery")
        return r
    rec = recs[0]
    fn = Fn(rec)
    r.functions.add(fn.id)
    casts = [c for c in fn.calls() if c.name == "glaredb_core::expr::cast" or c.name.endswith("CastExpr::new")]
    r.inst({"fn": fn.id, "cast_calls": len(casts)}, not casts)
    for c in casts:
        r.violate(fn.id, "any-left-cast", "bind_subquery casts the left expression of ANY/IN to the subquery's output type instead of leaving the coercion to the comparison",
                  rec["file"], c.line)
    return r


def rule_magicdistinct(facts):
    """Decorrelation evaluates the flattened subquery once per DISTINCT value of the correlated columns and joins the result back to the
    outer rows. The duplicate elimination sits in the physical plan of the magic materialization scan (project -> hash aggregate over all
    projected columns). Without it an outer value that occurs n times flows through the subquery n times and every multiplicity-sensitive
    aggregate inside (count, sum) is n-fold. Must-pass-through on `plan_magic_materialize_scan`: every path from the construction of the
    projection to a return that is not an error propagation constructs the PhysicalHashAggregate."""
    r = RuleResult("C09-MAGICDISTINCT", "the magic materialization scan is always planned with its duplicate-eliminating aggregate", floor=1)
    recs = facts.fns_matching(lambda i: i.endswith("::plan_magic_materialize_scan"))
    if not recs:
        r.missing_anchor("OperatorPlanState::plan_magic_materialize_scan")
        return r
    rec = recs[0]
    fn = Fn(rec)
    r.functions.add(fn.id)
    proj = [c for c in fn.calls() if c.name.endswith("PhysicalProject::new")]
    agg = [c for c in fn.calls() if c.name.endswith("PhysicalHashAggregate::new")]
    if not proj:
        r.missing_anchor("plan_magic_materialize_scan: PhysicalProject::new")
        return r
    errs = [c.bb for c in fn.calls() if c.name.endswith("::from_residual")]
    avoid = set(c.bb for c in agg) | set(errs)
    bad = []
    for p_ in proj:
        for b in fn.reach(p_.bb, avoid_blocks=avoid):
            if fn.term(b)[0] == "ret":
                bad.append(p_.line)
    ok = bool(agg) and not bad
    r.call_sites += len(proj)
    r.inst({"fn": fn.id, "aggregate_constructions": len(agg), "success_return_without_aggregate": bool(bad)}, ok)
    if not ok:
        r.violate(fn.id, "magic-scan-without-distinct", "a path from the projection of the magic materialization scan to a successful return skips the hash aggregate that "
                  "removes duplicate outer values: aggregates in a decorrelated subquery are multiplied by the outer value's multiplicity", rec["file"], proj[0].line)
    return r
