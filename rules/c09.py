"""C09 — correlated subqueries, CTEs and views mean what nested evaluation means (narrow clause).
  C09-CTE  a CTE body is evaluated once: a reference may inline (clone) the bound CTE body only on a path guarded by a
           test that makes double evaluation unobservable — a volatility predicate or a reference count — in addition to
           the syntactic `materialized` flag.   (volatility guards shared with C02-VOL are evaluated under C02.)
Not decided: decorrelation correctness (value-level plan rewriting)."""
import re
from .framework import RuleResult
from .mir import Fn, controlling_calls, switch_edges, resolve_bool

EXPLANATION = ("Edge-dominance rule on the MIR of FromBinder::bind_cte: the clone of the bound CTE body (inlining it at this reference) must be "
               "controlled by a volatility / single-reference test, not only by the syntactic MATERIALIZED flag; otherwise a CTE referenced "
               "twice is evaluated twice and a volatile body yields two different relations. Decorrelation rewrites are not decided.")
NOT_DECIDED = ["subquery decorrelation equivalence", "view expansion", "lateral join binding"]

GUARD_NAME = re.compile(r"volatil|ref_?count|reference_count|num_references|single_use|use_count", re.I)


def run(ctx):
    facts = ctx["facts"]
    r = RuleResult("C09-CTE", "inlining a CTE body at a reference is guarded by a volatility / reference-count test", floor=1)
    recs = facts.fns_matching(lambda i: "bind_from::FromBinder" in i and i.endswith("::bind_cte"))
    if not recs:
        r.missing_anchor("FromBinder::bind_cte")
        return [r]
    rec = recs[0]
    fn = Fn(rec)
    r.functions.add(fn.id)
    clones = []
    for c in fn.calls():
        if c.name.endswith("Clone>::clone") or c.decl.endswith("Clone::clone"):
            o = fn.origin(c.args[0], through_calls=("::deref", "::as_ref"), at=c.bb)
            flds = [p[1] for p in (o[2] if len(o) > 2 and isinstance(o[2], list) else []) if isinstance(p, list) and p[0] == "f"]
            if flds and flds[-1] == "bound":
                clones.append(c)
    if not clones:
        r.inst({"fn": fn.id, "inlines_cte_body": False})
        r.notes.append("bind_cte no longer clones the bound body (CTEs are never inlined): nothing to guard")
        return [r]
    for c in clones:
        r.call_sites += 1
        guards = []
        for g, truth in controlling_calls(fn, c.bb):
            guards.append(g.name.rsplit("::", 1)[-1])
        # bool field reads controlling the clone
        fld_guards = []
        for b in range(fn.n):
            t = fn.term(b)
            if t[0] == "switch" and t[4] == "bool" and t[1][0] in ("c", "m") and not t[1][1][1]:
                cur = t[1][1][0]
                for _ in range(4):
                    ds = [d for d in fn.defs.get(cur, []) if d[0] == "a" and not (d[3][0] == "use" and d[3][1][0] == "k")]
                    if len(ds) != 1:
                        break
                    rv = ds[0][3]
                    if rv[0] == "un":
                        cur = rv[2][1][0]
                        continue
                    if rv[0] == "use" and rv[1][0] in ("c", "m"):
                        fl = [p[1] for p in rv[1][1][1] if isinstance(p, list) and p[0] == "f"]
                        if fl:
                            if any(fn.edge_dominates(b, tgt, c.bb) for v, tgt in switch_edges(t)):
                                fld_guards.append(fl[-1])
                            break
                        cur = rv[1][1][0]
                        continue
                    break
        ok = any(GUARD_NAME.search(g) for g in guards + fld_guards)
        r.inst({"fn": fn.id, "clone_line": c.line, "guards": sorted(set(guards + fld_guards))}, ok)
        if not ok:
            r.violate(fn.id, "inline-cte-body", f"the bound CTE body is cloned into this reference guarded only by {sorted(set(guards + fld_guards))}: a CTE referenced twice is "
                      "evaluated twice (WITH c AS (SELECT random() r) SELECT a.r = b.r FROM c a, c b returns false)", rec["file"], c.line)
    return [r]


CLAIM = {
    "text": "Edge-dominance rule on the binder's CTE reference path: inlining is only sound under a volatility or single-reference guard. "
            "Whether a CTE is evaluated once is visible in this code shape for all queries; the correctness of subquery decorrelation is "
            "value-level plan rewriting and is not decided.",
    "note": "trusted: rustc MIR; guard recognised by callee / field names matching volatile|ref_count|single_use (documented in rules/c09.py)",
    "technique": "static analysis: MIR edge-dominance guard rule (rustc_private driver)",
}
