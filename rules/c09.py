"""C09 — correlated subqueries, CTEs and views mean what nested evaluation means (narrow clause).
  C09-CTE  a CTE body is evaluated once: a reference may inline (clone) the bound CTE body only on a path guarded by a
           test that makes double evaluation unobservable — a volatility predicate or a reference count — in addition to
           the syntactic `materialized` flag.   (volatility guards shared with C02-VOL are evaluated under C02.)
  C09-GROUPIDX  decorrelation through an Aggregate: the position inserted into every grouping set is the same expression as the
           column index stored in the column map for that correlated column
Not decided: decorrelation correctness in general (value-level plan rewriting)."""
import re
from .framework import RuleResult
from .mir import Fn, controlling_calls, switch_edges, resolve_bool

EXPLANATION = ("Edge-dominance rule on the MIR of FromBinder::bind_cte: the clone of the bound CTE body (inlining it at this reference) must be "
               "controlled by a volatility / single-reference test, not only by the syntactic MATERIALIZED flag; otherwise a CTE referenced "
               "twice is evaluated twice and a volatile body yields two different relations. Decorrelation rewrites are not decided.")
NOT_DECIDED = ["subquery decorrelation equivalence", "view expansion", "lateral join binding"]

GUARD_NAME = re.compile(r"volatil|ref_?count|reference_count|num_references|single_use|use_count", re.I)


def run(ctx):
    return _rule_cte(ctx) + [rule_groupidx(ctx["facts"])]


def _rule_cte(ctx):
    facts = ctx["facts"]
    r = RuleResult("C09-CTE", "inlining a CTE body at a reference is guarded by a volatility / reference-count test", floor=1)
    recs = facts.fns_matching(lambda i: "bind_from::FromBinder" in i and i.endswith("::bind_cte"))
    if not recs:
        r.missing_anchor("FromBinder::bind_cte")
        return [r]
    rec = recs[0]
    fn = Fn(rec)
    r.functions.add(fn.id)
    clones = []
    for c in fn.calls():
        if c.name.endswith("Clone>::clone") or c.decl.endswith("Clone::clone"):
            o = fn.origin(c.args[0], through_calls=("::deref", "::as_ref"), at=c.bb)
            flds = [p[1] for p in (o[2] if len(o) > 2 and isinstance(o[2], list) else []) if isinstance(p, list) and p[0] == "f"]
            if flds and flds[-1] == "bound":
                clones.append(c)
    if not clones:
        r.inst({"fn": fn.id, "inlines_cte_body": False})
        r.notes.append("bind_cte no longer clones the bound body (CTEs are never inlined): nothing to guard")
        return [r]
    for c in clones:
        r.call_sites += 1
        guards = []
        for g, truth in controlling_calls(fn, c.bb):
            guards.append(g.name.rsplit("::", 1)[-1])
        # bool field reads controlling the clone
        fld_guards = []
        for b in range(fn.n):
            t = fn.term(b)
            if t[0] == "switch" and t[4] == "bool" and t[1][0] in ("c", "m") and not t[1][1][1]:
                cur = t[1][1][0]
                for _ in range(4):
                    ds = [d for d in fn.defs.get(cur, []) if d[0] == "a" and not (d[3][0] == "use" and d[3][1][0] == "k")]
                    if len(ds) != 1:
                        break
                    rv = ds[0][3]
                    if rv[0] == "un":
                        cur = rv[2][1][0]
                        continue
                    if rv[0] == "use" and rv[1][0] in ("c", "m"):
                        fl = [p[1] for p in rv[1][1][1] if isinstance(p, list) and p[0] == "f"]
                        if fl:
                            if any(fn.edge_dominates(b, tgt, c.bb) for v, tgt in switch_edges(t)):
                                fld_guards.append(fl[-1])
                            break
                        cur = rv[1][1][0]
                        continue
                    break
        ok = any(GUARD_NAME.search(g) for g in guards + fld_guards)
        r.inst({"fn": fn.id, "clone_line": c.line, "guards": sorted(set(guards + fld_guards))}, ok)
        if not ok:
            r.violate(fn.id, "inline-cte-body", f"the bound CTE body is cloned into this reference guarded only by {sorted(set(guards + fld_guards))}: a CTE referenced twice is "
                      "evaluated twice (WITH c AS (SELECT random() r) SELECT a.r = b.r FROM c a, c b returns false)", rec["file"], c.line)
    return [r]


def _expr_key(fn, op, at, depth=3):
    """canonical shape of an integer expression: ('add', k1, k2) | leaf identity"""
    if op[0] == "k":
        return ("const", op[1].get("v"))
    o = fn.origin(op, at=at)
    if o[0] == "rv" and o[1][0] == "bin" and depth > 0:
        opn = o[1][1].replace("WithOverflow", "").replace("Unchecked", "")
        # origin() of `(_t.0)` of a checked op lands on the bin rvalue; operands are evaluated where the op is
        return (opn, _expr_key(fn, o[1][2], None, depth - 1), _expr_key(fn, o[1][3], None, depth - 1))
    proj = o[2] if len(o) > 2 and isinstance(o[2], list) else []
    names = tuple(pp[1] for pp in proj if isinstance(pp, list) and pp[0] == "f")
    if o[0] in ("arg", "local"):
        return (o[0], fn.local_name(o[1]), names)
    if o[0] == "call":
        return ("call", o[1].name.rsplit("::", 1)[-1], o[1].bb, names)
    return (o[0],)


def rule_groupidx(facts):
    """Decorrelation through an Aggregate appends each correlated column to GROUP BY. The position it gets is used twice: it is
    inserted into every grouping set and stored in the column map that rewrites references above the aggregate. Both have to be
    the same expression (the position of the pushed group expression); if they differ, the correlated column is missing from
    the grouping sets (NULL for every group) or the join condition above compares a different column."""
    r = RuleResult("C09-GROUPIDX", "DependentJoinPushdown (Aggregate arm): the index added to every grouping set equals the column index "
                   "recorded in the column map for the same correlated column", floor=1)
    recs = facts.fns_matching(lambda i: i.endswith("plan_subquery::DependentJoinPushdown::pushdown"))
    if not recs:
        r.missing_anchor("DependentJoinPushdown::pushdown")
        return r
    rec = recs[0]
    fn = Fn(rec)
    r.functions.add(fn.id)
    pushes = [c for c in fn.calls() if c.name.endswith("Vec::<T, A>::push") and "group_exprs" in str(fn.origin(c.args[0], at=c.bb))]
    inserts = [c for c in fn.calls() if c.name.endswith("BTreeSet::<T, A>::insert") and (c.callee.get("res_args") or c.callee.get("args") or [""])[0] == "usize"]
    refs = []
    for b, i, pl, rv, ln in fn.assigns():
        if rv[0] == "agg" and rv[1][0] == "adt" and rv[1][1].endswith("column_expr::ColumnReference") and "column" in rv[1][3]:
            refs.append((b, rv[2][rv[1][3].index("column")], ln))
    if not pushes or not inserts or not refs:
        r.missing_anchor("group_exprs.push / grouping set insert / ColumnReference construction in the Aggregate arm")
        return r
    for p in pushes:
        ins = [c for c in inserts if c.bb in fn.reachable_from(p.bb)]
        rfs = [x for x in refs if x[0] in fn.reachable_from(p.bb)]
        for c in ins:
            r.call_sites += 1
            ki = _expr_key(fn, c.args[1], c.bb)
            for b, op, ln in rfs:
                kr = _expr_key(fn, op, b)
                ok = ki == kr
                r.inst({"fn": fn.id, "grouping_set_insert_line": c.line, "column_map_line": ln, "same_expression": ok}, ok)
                if not ok:
                    r.violate(fn.id, "group-index-disagreement", f"the index inserted into the grouping sets (line {c.line}) and the column index recorded in "
                              f"the column map (line {ln}) are different expressions ({ki} vs {kr}): the appended correlated column is not grouped on, "
                              "or references above the aggregate point at another column", rec["file"], c.line)
    return r


CLAIM = {
    "text": "Edge-dominance rule on the binder's CTE reference path: inlining is only sound under a volatility or single-reference guard. "
            "Whether a CTE is evaluated once is visible in this code shape for all queries; the correctness of subquery decorrelation is "
            "value-level plan rewriting and is not decided in general; one positional-agreement clause of it is (the index a decorrelated "
            "aggregate adds to its grouping sets is the index its column map records).",
    "note": "trusted: rustc MIR; guard recognised by callee / field names matching volatile|ref_count|single_use (documented in rules/c09.py)",
    "technique": "static analysis: MIR edge-dominance guard rule (rustc_private driver)",
}
