"""C07 — grouping, aggregates and duplicate elimination are exact per group (narrow clause).
  C07-MERGE  for every `impl AggregateState`: every field of the state that `update` mutates is also mutated by
             `merge` and read from `other` there (field-effect summaries on MIR). A partial state's contribution
             must not be forgotten when per-partition states are combined.
Not decided: that merge is the right homomorphism, hash-table resizing, grouping-set ids."""
from .framework import RuleResult
from .mir import Fn

EXPLANATION = ("Field-effect summaries (written / read field sets of `self` and `other`) are computed from the MIR of update() and merge() of "
               "every AggregateState implementation; merge must cover every field update touches. With several partitions each group is "
               "aggregated in several partial states, so a field forgotten by merge makes the result depend on the partition count. "
               "That the merge arithmetic is right is not decided.")
NOT_DECIDED = ["that merge combines values correctly (e.g. variance formulas)", "hash table resize/rehash", "DISTINCT set semantics"]

TRAIT = "glaredb_core::arrays::executor::aggregate::AggregateState"
# update-only fields: (impl self type prefix, field) -> reason
EXEMPT = {}


def field_effects(fn, argn):
    """(written fields, read fields) of the struct behind argument `argn` (a reference)"""
    W, R = set(), set()

    def first_field(proj):
        for p in proj:
            if isinstance(p, list) and p[0] == "f":
                return p[1]
        return None

    def base_is_arg(pl, at):
        # place rooted (through reborrows) at the argument
        o = fn.origin(["c", [pl[0], []]], at=at)
        if o[0] == "arg" and o[1] == argn:
            proj = list(o[2]) + list(pl[1])
            return first_field(proj)
        return None

    for b, i, pl, rv, ln in fn.assigns():
        if pl[1]:
            f = base_is_arg(pl, b)
            if f:
                W.add(f)

        def scan(x):
            if isinstance(x, list):
                if len(x) >= 3 and x[0] in ("ref", "raw") and isinstance(x[2], list):
                    f = base_is_arg(x[2], b) if x[2][1] else None
                    if f:
                        (W if x[1] else R).add(f)
                        R.add(f)
                    return
                if len(x) == 2 and x[0] in ("c", "m") and isinstance(x[1], list) and len(x[1]) == 2 and isinstance(x[1][0], int):
                    f = base_is_arg(x[1], b) if x[1][1] else None
                    if f:
                        R.add(f)
                    return
                for y in x:
                    scan(y)
        scan(rv)
    for c in fn.calls():
        for a in c.args:
            if a[0] in ("c", "m") and a[1][1]:
                f = base_is_arg(a[1], c.bb)
                if f:
                    R.add(f)
    # whole-struct operations: `*self = ...` / mem::swap(self, other) / self.clone_from(other)
    whole_w = any(pl[0] and not [p for p in pl[1] if p != "*"] and pl[1] and fn.origin(["c", [pl[0], []]], at=b)[0] == "arg"
                  and fn.origin(["c", [pl[0], []]], at=b)[1] == argn for b, i, pl, rv, ln in fn.assigns())
    return W, R, whole_w


def _flag_edges(fn, argn, field, want):
    """switch edges on which `(*arg_n).field` (a bool) is known to equal `want`"""
    out = set()
    for b in range(fn.n):
        t = fn.term(b)
        if t[0] != "switch" or t[4] != "bool" or t[1][0] not in ("c", "m") or t[1][1][1]:
            continue
        cur, inv, hit = t[1][1][0], False, False
        for _ in range(5):
            ds = [d for d in fn.defs.get(cur, []) if d[0] == "a" and not (d[3][0] == "use" and d[3][1][0] == "k")]
            if len(ds) != 1:
                break
            rv = ds[0][3]
            if rv[0] == "un" and rv[1] == "Not":
                inv = not inv
                cur = rv[2][1][0]
                continue
            if rv[0] == "use" and rv[1][0] in ("c", "m"):
                pl = rv[1][1]
                flds = [p[1] for p in pl[1] if isinstance(p, list) and p[0] == "f"]
                o = fn.origin(["c", [pl[0], []]], at=ds[0][1])
                if flds == [field] and o[0] == "arg" and o[1] == argn:
                    hit = True
                    break
                if not flds:
                    cur = pl[0]
                    continue
            break
        if hit:
            from .mir import switch_edges
            for v, tgt in switch_edges(t):
                if ((v != 0) != inv) == want:
                    out.add((b, tgt))
    return out


def rule_valid(facts, impls):
    """validity-gated states: if update() branches on self.valid (the default value is not an identity for the
    combination), merge() may use other's value only after other.valid was seen true — or while adopting it wholesale
    because self.valid is false"""
    r = RuleResult("C07-VALID", "merge() reads other's value only under other.valid (or while self is still invalid) when update() is validity-gated", floor=5)
    for (krate, st), ms in sorted(impls.items()):
        if "update" not in ms or "merge" not in ms:
            continue
        up, mg = Fn(ms["update"]), Fn(ms["merge"])
        if not (_flag_edges(up, 1, "valid", True) or _flag_edges(up, 1, "valid", False)):
            continue          # update does not branch on validity: default is an identity (sum, bool_and, …)
        other_idx = None
        for l in range(2, mg.argc + 1):
            if mg.locals[l].replace("&mut ", "").replace("&", "") == mg.locals[1].replace("&mut ", "").replace("&", ""):
                other_idx = l
        if other_idx is None:
            continue
        r.functions.update([up.id, mg.id])
        ok_edges = _flag_edges(mg, 1, "valid", False) | _flag_edges(mg, other_idx, "valid", True)
        reach_unguarded = mg.reach(0, avoid_edges=ok_edges)
        bad = []
        n = 0

        def reads_other_value(x, at):
            hits = []

            def scan(y):
                if isinstance(y, list):
                    if len(y) == 2 and isinstance(y[0], int) and isinstance(y[1], list) and y[1] and all(isinstance(p, str) or (isinstance(p, list) and p) for p in y[1]):
                        flds = [p[1] for p in y[1] if isinstance(p, list) and p[0] == "f"]
                        o = mg.origin(["c", [y[0], []]], at=at)
                        of = [p[1] for p in (o[2] if len(o) > 2 and isinstance(o[2], list) else []) if isinstance(p, list) and p[0] == "f"]
                        allf = of + flds
                        if o[0] == "arg" and o[1] == other_idx and allf and allf[0] != "valid":
                            hits.append(allf[0])
                        return
                    for z in y:
                        scan(z)
            scan(x)
            return hits
        for b, i, pl, rv, ln in mg.assigns():
            for f in reads_other_value(rv, b):
                n += 1
                if b in reach_unguarded:
                    bad.append((f, ln))
        for c in mg.calls():
            for f in reads_other_value(c.args, c.bb):
                n += 1
                if c.bb in reach_unguarded:
                    bad.append((f, c.line))
        ok = not bad
        r.inst({"impl": st.replace("glaredb_core::functions::aggregate::builtin::", ""), "reads_of_other_value": n, "unguarded": sorted(set(bad))}, ok)
        for f, ln in sorted(set(bad)):
            r.violate(mg.id, f"unguarded-other.{f}", f"merge() uses other.{f} on a path where neither `other.valid` was seen true nor `self.valid` false, although update() treats the "
                      "default value as 'no value yet': merging an empty partial state (a partition that saw no rows of the group) corrupts the result", ms["merge"]["file"], ln)
    return r


def run(ctx):
    facts = ctx["facts"]
    r = RuleResult("C07-MERGE", "merge() writes and reads-from-other every state field that update() writes", floor=15)
    impls = {}
    for rec in facts.all_fns(None):
        if rec.get("impl_trait") == TRAIT and rec.get("name") in ("update", "merge"):
            impls.setdefault((rec["krate"], rec["self_ty"]), {})[rec["name"]] = rec
    for (krate, st), ms in sorted(impls.items()):
        if "update" not in ms or "merge" not in ms:
            continue
        up, mg = Fn(ms["update"]), Fn(ms["merge"])
        r.functions.update([up.id, mg.id])
        Wu, _, whole_u = field_effects(up, 1)
        Wm, _, whole_m = field_effects(mg, 1)
        # `other` is the 3rd parameter of merge(&mut self, state, other)
        other_idx = None
        for l in range(2, mg.argc + 1):
            if mg.locals[l].replace("&mut ", "").replace("&", "") == mg.locals[1].replace("&mut ", "").replace("&", ""):
                other_idx = l
        Ro = field_effects(mg, other_idx)[1] if other_idx else set()
        whole_o = False
        if other_idx:
            # other used as a whole (e.g. std::mem::swap(self, other), self.merge_from(other))
            for c in mg.calls():
                for a in c.args:
                    o = mg.origin(a, at=c.bb)
                    if o[0] == "arg" and o[1] == other_idx and not [p for p in o[2] if isinstance(p, list) and p[0] == "f"]:
                        whole_o = True
        missing_w = set() if whole_m else {f for f in Wu if f not in Wm and (st.split("<")[0], f) not in EXEMPT}
        missing_r = set() if whole_o else {f for f in Wu if f not in Ro and (st.split("<")[0], f) not in EXEMPT}
        ok = not missing_w and not missing_r
        r.inst({"impl": st.replace("glaredb_core::functions::aggregate::builtin::", ""), "update_writes": sorted(Wu), "merge_writes": sorted(Wm) if not whole_m else "whole state",
                "merge_reads_other": sorted(Ro) if not whole_o else "whole state"}, ok)
        if not ok:
            r.violate(mg.id, "merge-coverage", f"update() mutates {sorted(Wu)} but merge() does not write {sorted(missing_w)} / does not read other.{sorted(missing_r)}: "
                      "the contribution of a partition's partial state to these fields is lost when states are combined (result depends on the partition count)",
                      ms["merge"]["file"], ms["merge"]["line"])
    from .astclause import clause_sites
    rf = RuleResult("C07-AGGFILTER", "the binder consults the aggregate FILTER clause wherever it builds an aggregate expression (translated or refused, never dropped)", floor=1)
    for fn, rec, ln, guarded in clause_sites(facts, lambda i: "logical::binder::expr_binder" in i, "aggregate_expr::AggregateExpr", "filter", "ast::Function"):
        rf.functions.add(fn.id)
        rf.inst({"fn": fn.id, "line": ln, "filter_clause_consulted": guarded}, guarded)
        if not guarded:
            rf.violate(fn.id, "filter-clause-dropped", f"an AggregateExpr is built at line {ln} without any branch on the parsed `FILTER (WHERE …)` clause: the clause is accepted by "
                       "the parser and silently ignored, `count(*) FILTER (WHERE x > 5)` counts every row", rec["file"], ln)
    return [r, rule_valid(facts, impls), rule_simul(facts), rf, rule_nanorder(facts), rule_hashcanon(facts), rule_dircap(facts), rule_distinctorder(facts)]


def rule_nanorder(facts):
    """min()/max() over floats must not depend on where a NaN shows up: with plain `<`/`>` every comparison with NaN is false, so a NaN
    that arrives first is never replaced and one that arrives later is ignored. The replace decision of the generic min/max states has to
    consult whether a value is unordered with respect to itself (partial_cmp(v, v) is None) - directly or through a helper."""
    r = RuleResult("C07-NANORDER", "the replace decision of the primitive min/max aggregate states consults self-comparison (NaN) of the values", floor=4)
    MM = "glaredb_core::functions::aggregate::builtin::minmax::"

    def has_selfcmp(rec, depth=0):
        fn = Fn(rec)
        for c in fn.calls():
            if c.name.endswith("partial_cmp") and len(c.args) == 2:
                a, b = fn.origin(c.args[0], at=c.bb), fn.origin(c.args[1], at=c.bb)
                if a[:2] == b[:2] and a[0] in ("arg", "local"):
                    return True
        if depth < 2:
            for c in fn.calls():
                if c.name.startswith(MM):
                    sub = facts.fn(c.name)
                    if sub is not None and has_selfcmp(sub, depth + 1):
                        return True
        return False
    for rec in facts.fns_matching(lambda i: MM in i and ("MaxStatePrimitive" in i or "MinStatePrimitive" in i) and i.rsplit("::", 1)[-1] in ("update", "merge")):
        ok = has_selfcmp(rec)
        r.functions.add(rec["id"])
        r.inst({"fn": rec["id"], "consults_unordered_values": ok}, ok)
        if not ok:
            r.violate(rec["id"], "nan-order-dependent", "the min/max replace decision uses only `<`/`>`: with float input the result depends on whether a NaN arrives before or "
                      "after the other values (and on how partial states are merged)", rec["file"], rec["line"])
    return r


def float_canon(facts, rule, desc, fn_pred, bits_calls, need_nan, why):
    """The float impls of a raw-bits consumer (hash / sort key) must canonicalise values that compare equal but differ in bits:
    0.0 vs -0.0 (and, for ordering, the NaN payload/sign). Decided per impl: a float equality test against the value exists (and an
    is_nan test when `need_nan`), and the operand of the raw-bits call is not the unmodified receiver on every path (its local is
    assigned on more than one path)."""
    r = RuleResult(rule, desc, floor=3)
    for rec in facts.fns_matching(fn_pred):
        fn = Fn(rec)
        r.functions.add(fn.id)
        zero = any(rv[0] == "bin" and rv[1] == "Eq" and str(rv[4]) in ("f32", "f64") for b, i, pl, rv, ln in fn.assigns()) or \
            any(c.name.endswith("f16 as std::cmp::PartialEq>::eq") for c in fn.calls())
        nan = any(c.name.endswith("::is_nan") for c in fn.calls()) or \
            any(rv[0] == "bin" and rv[1] == "Ne" and str(rv[4]) in ("f32", "f64") for b, i, pl, rv, ln in fn.assigns())
        bits = [c for c in fn.calls() if c.name.rsplit("::", 1)[-1] in bits_calls]
        merged = bool(bits)
        for c in bits:
            a = c.args[0]
            if a[0] in ("c", "m"):
                o = fn.origin(a, at=c.bb)
                if o[0] == "arg":
                    merged = False      # raw receiver on this path
        ok = zero and merged and (nan or not need_nan)
        r.inst({"fn": fn.id, "zero_test": zero, "nan_test": nan, "bits_of_canonical_value": merged}, ok)
        if not bits:
            r.missing_anchor(f"{fn.id}: no raw-bits call ({'/'.join(bits_calls)})")
        elif not ok:
            r.violate(fn.id, "float-bits-not-canonical", why, rec["file"], rec["line"])
    return r


def rule_hashcanon(facts):
    return float_canon(facts, "C07-HASHCANON", "float hashing canonicalises the sign of zero before taking the bits",
                       lambda i: i.endswith("compute::hash::HashValue>::hash_one") and i.split(" as ")[0].lstrip("<") in ("f32", "f64", "half::f16", "half::binary16::f16"),
                       ("to_ne_bytes", "to_bits", "to_le_bytes", "to_be_bytes"), False,
                       "the hash is taken over the raw bits of the float: 0.0 and -0.0 are equal under `=` but land in different hash buckets, so GROUP BY / DISTINCT "
                       "split them and a hash join misses the pair that the nested-loop join finds")


def rule_dircap(facts):
    """Open addressing: the home slot of a hash is `hash & (capacity - 1)` and probing wraps at `capacity`. Both have to use the capacity
    of the array that is actually indexed; an entry placed with one capacity and looked up with another is not found and the group is
    created twice (GROUP BY / DISTINCT return duplicates). Decided per function of the aggregate hash table: every capacity operand of
    compute_offset_from_hash / inc_and_wrap_offset is (i) the directory's own `capacity()` / `len()`, or (ii) the very value the
    function hands to the raw allocation (`DbVec::with_value`) of the array it then fills; and all of them in one function agree."""
    r = RuleResult("C07-DIRCAP", "hash-directory offsets are computed with the capacity of the array that is indexed (one capacity per function)", floor=4)
    for rec in facts.all_fns(["glaredb_core"], contains="compute_offset_from_hash"):
        if "::tests::" in rec["id"] or "hash_aggregate::hash_table" not in rec["id"]:
            continue
        fn = Fn(rec)
        cs = [c for c in fn.calls() if c.name.endswith(("::compute_offset_from_hash", "::inc_and_wrap_offset")) and len(c.args) == 2]
        if not cs:
            continue
        allocs = [fn.origin(c.args[1], at=c.bb) for c in fn.calls() if c.name.endswith("DbVec::<T>::with_value") or c.name.endswith("DbVec::with_value") and len(c.args) > 1]
        allocs = [a for a in allocs if a]

        def key(o):
            return (o[0], str(o[1]), str(o[2]) if len(o) > 2 else "")
        kinds = set()
        r.functions.add(fn.id)
        for c in cs:
            o = fn.origin(c.args[1], at=c.bb)
            own = o[0] == "call" and o[1].name.rsplit("::", 1)[-1] in ("capacity", "len") and "hash_table" in o[1].name or \
                (o[0] == "call" and o[1].name.endswith("::len"))
            same_as_alloc = any(key(o) == key(a) for a in allocs)
            ok = own or same_as_alloc
            kinds.add("own" if own else (key(o) if same_as_alloc else ("other", c.line)))
            r.call_sites += 1
            r.inst({"fn": fn.id, "line": c.line, "capacity_is": "directory capacity" if own else ("allocated size" if same_as_alloc else "unrelated value")}, ok)
            if not ok:
                r.violate(fn.id, "offset-with-foreign-capacity", f"{c.name.rsplit('::', 1)[-1]} at line {c.line} uses a capacity that is neither the directory's own capacity nor the "
                          "size the array was allocated with: entries are placed where later lookups do not probe", rec["file"], c.line)
        if len(kinds) > 1 and not any(isinstance(k, tuple) and k[0] == "other" for k in kinds):
            r.violate(fn.id, "mixed-capacities", "the offset computations of this function use different capacity values", rec["file"], rec["line"])
    return r


def rule_distinctorder(facts):
    """SELECT DISTINCT removes duplicates over the projected columns. ORDER BY expressions that are not select expressions are appended
    to the projection as helper columns; under DISTINCT the helper would become part of what is compared and the "distinct" output
    contains duplicates (`select distinct x%3 .. order by x` returned 10 rows). Decided on the ORDER BY binder: the append of a helper
    projection is dominated by a branch whose condition is computed from the select list's DISTINCT modifier."""
    from .mir import switch_edges
    r = RuleResult("C07-DISTINCTORDER", "ORDER BY appends a helper projection only after consulting the select list's DISTINCT modifier", floor=1)
    recs = facts.fns_matching(lambda i: "bind_modifier::ModifierBinder" in i and "bind_order_by" in i)
    sites = 0
    for rec in recs:
        fn = Fn(rec)
        apps = [c for c in fn.calls() if c.name.endswith("SelectList::append_projection")]
        if not apps:
            continue
        guards = []
        for b in range(fn.n):
            t = fn.term(b)
            if t[0] != "switch" or t[1][0] not in ("c", "m"):
                continue
            o = fn.origin(t[1], at=b)
            txt = str(o)
            if o[0] == "call" and o[1].name.endswith("::eq") or o[0] == "call" and o[1].name.endswith("::ne"):
                txt = str([fn.origin(a, at=o[1].bb) for a in o[1].args if a[0] in ("c", "m")])
            if "'distinct_modifier'" in txt:
                guards.append(b)
        for a in apps:
            sites += 1
            # the test may be the first operand of a `&&`: the append is then reached over two of its edges, so block dominance
            ok = any(fn.dominates(g, a.bb) and g != a.bb for g in guards)
            r.functions.add(fn.id)
            r.call_sites += 1
            r.inst({"fn": fn.id, "line": a.line, "distinct_consulted": ok}, ok)
            if not ok:
                r.violate(fn.id, "order-by-helper-under-distinct", "an ORDER BY expression is appended to the projection without a look at the DISTINCT modifier: under SELECT "
                          "DISTINCT the helper column takes part in the duplicate elimination and duplicates are returned", rec["file"], a.line)
    if sites == 0:
        r.missing_anchor("ModifierBinder::bind_order_by: append_projection call")
    return r


CLAIM = {
    "text": "Sibling/field-effect rule on MIR for every AggregateState implementation in the workspace: W(update) ⊆ W(merge) and "
            "W(update) ⊆ R(merge, other). This is the structural precondition for aggregates to be independent of how rows are split over "
            "partitions; the numeric correctness of the combination is a value question and is not decided. Plus a guard rule: a merge that "
            "compares with or takes the other state's value does so only behind the other state's validity flag (an empty partial state "
            "holds the type's default value, not a minimum). Plus a simultaneity rule over all 25 merge implementations: a field of self that has already been overwritten is never read to compute a different field (the merged state is a function of the two input states; e.g. the Welford delta must use the input mean)."
            " Plus AGGFILTER (the aggregate FILTER clause is translated or refused, never dropped), NANORDER (the min/max replace decision consults self-comparison, so a NaN's arrival order does not matter) and HASHCANON (float hashing canonicalises the sign of zero)."
            " Plus DIRCAP: every offset computation of the aggregate hash directory uses the capacity of the array it indexes."
            " Plus DISTINCTORDER: ORDER BY appends a helper projection only after consulting the DISTINCT modifier.",
    "note": "trusted: rustc MIR; a &mut borrow of a field counts as a write, any mention as a read; whole-state operations (swap/assign) cover all fields",
    "technique": "static analysis: MIR field-effect summaries + sibling agreement (rustc_private driver)",
}


def _field_read_sites(fn, rv, at, depth=8):
    """[(block, stmt idx, field)] — reads of `self.<field>` (parameter 1) whose value flows into the rvalue, through temporaries"""
    from .c10carry import _self_field
    out, seen = [], set()

    def walk(x, b, i, d):
        if d < 0:
            return
        if isinstance(x, list):
            if len(x) == 2 and x[0] in ("c", "m") and isinstance(x[1], list) and len(x[1]) == 2 and isinstance(x[1][0], int):
                pl = x[1]
                if pl[0] == 1 and pl[1] and pl[1][0] == "*":
                    fld = _self_field(fn, pl)
                    if fld:
                        out.append((b, i, fld))
                    return
                l = pl[0]
                if l in seen or (1 <= l <= fn.argc):
                    return
                seen.add(l)
                for dd in fn.defs.get(l, []):
                    if dd[0] in ("a", "pa"):
                        walk(dd[3], dd[1], dd[2], d - 1)
                    elif dd[0] in ("call", "pcall"):
                        for a in dd[2].args:
                            walk(a, dd[1], 10 ** 6, d - 1)
                return
            if len(x) >= 3 and x[0] in ("ref", "raw") and isinstance(x[2], list) and len(x[2]) == 2 and isinstance(x[2][0], int):
                walk(["c", x[2]], b, i, d)
                return
            for y in x:
                walk(y, b, i, d)
    walk(rv, at[0], at[1], depth)
    return out


def rule_simul(facts):
    """merge(self, other) computes the combined state from the two *input* states. A field of `self` that has already been
    overwritten holds the combined value; reading it afterwards to compute a different field mixes pre- and post-merge state
    (e.g. Welford/Chan: the delta of the two input means taken against the already combined mean). Decided: no value read from
    `self.F` after a write of `self.F` flows into a write of another field."""
    from .c10carry import _self_field
    r = RuleResult("C07-SIMUL", "in every aggregate-state merge, a field of self that was already overwritten is not read to compute a different field "
                   "(the combined state is a function of the two input states)", floor=20)
    for rec in facts.all_fns(["glaredb_core"], contains="AggregateState"):
        fid = rec["id"]
        if not (fid.endswith("::merge") or fid.endswith("::combine")) or "AggregateState" not in fid:
            continue
        fn = Fn(rec)
        if fn.argc < 1 or not fn.locals[1].startswith("&mut"):
            continue
        r.functions.add(fn.id)
        writes = []
        for b, i, pl, rv, ln in fn.assigns():
            if pl[0] == 1 and pl[1] and pl[1][0] == "*":
                fld = _self_field(fn, pl)
                if fld:
                    writes.append((b, i, fld, rv, ln))
        bad = []
        for b, i, g, rv, ln in writes:
            for rb, ri, f_ in _field_read_sites(fn, rv, (b, i)):
                if f_ == g:
                    continue
                for wb, wi, wf, _wrv, wln in writes:
                    if wf != f_:
                        continue
                    after = (wb == rb and wi < ri) or any(rb in fn.reachable_from(s_) for s_ in fn.succ[wb])
                    if after:
                        bad.append((g, f_, ln, wln))
        r.inst({"fn": fn.id, "fields_written": sorted({w[2] for w in writes}), "stale_mix": [f"{g}<-{f_}" for g, f_, _, _ in bad]}, not bad)
        for g, f_, ln, wln in sorted(set(bad)):
            r.violate(fn.id, f"post-merge-read:{f_}->{g}", f"`self.{g}` (line {ln}) is computed from `self.{f_}` read after `self.{f_}` was overwritten at line {wln}: "
                      "the combined value is used where the formula needs the input state's value, so the result depends on how rows were split into partial states",
                      rec["file"], ln)
    return r
