"""debug: python3 -m rules.show <fn id substring> — pretty-print a function's facts"""
import sys, json
from .factsdb import Facts
from .mir import place_str
def main():
    f = Facts(verbose=False)
    pat = sys.argv[1]
    kind = sys.argv[2] if len(sys.argv) > 2 else "fn"
    if kind == "fn":
        recs = f.fns_matching(lambda i: pat in i)
    else:
        recs = [f._read(e) for k, es in f.inst_index().items() if pat in k for e in es]
    for r in recs[:int(sys.argv[3]) if len(sys.argv) > 3 else 3]:
        print("=====", r.get("key") or r["id"], r["file"], r["line"])
        print("locals:", {i: t for i, t in enumerate(r["locals"])})
        print("vars:", r["vars"])
        for i, b in enumerate(r["bbs"]):
            print(f"bb{i}{' (cleanup)' if b['cl'] else ''}:")
            for s in b["s"]:
                if s[0] == "dead": continue
                print("    ", json.dumps(s))
            print("   T", json.dumps(b["t"]))
main()
