"""C19 — malformed Parquet/CSV input fails cleanly (guard/taint clause).
  C19-GUARD  every call of an *unchecked* cursor primitive of the Parquet read buffer (read_next_unchecked,
             peek_next_unchecked, read_bytes_unchecked, skip_bytes_unchecked, take, read_into_unchecked) is
             dominated by a comparison with the cursor's `remaining` (on the passing edge), or sits in an
             `unsafe fn` all of whose callers (depth ≤ 3) satisfy the rule
  C19-FOOTER every path to metadata decoding passes the file-size and magic checks; footer length is compared
             with the file size before the read buffer is resized
  C19-UTF8   no from_utf8_unchecked on file bytes in the CSV/Parquet readers outside the storage getters
The absence of every crash on malformed input is not decided (that is a statement about all byte strings)."""
import re
from .framework import RuleResult
from .mir import Fn, op_const, switch_edges
from .callgraph import CallGraph

EXPLANATION = ("Guard rule over the MIR of the Parquet reader: unchecked cursor reads must be dominated by a bounds comparison against the "
               "cursor's remaining length, interprocedurally through `unsafe fn` wrappers; plus footer validation must-pass-through rules. "
               "A missing guard means a file-controlled length reaches a raw pointer read (out-of-bounds read / debug_assert abort). "
               "This decides the untrusted-length discipline, not the absence of every possible crash.")
NOT_DECIDED = ["panic-freedom of all decoders on arbitrary bytes", "allocation sizes bounded by file size in every path", "CSV dialect sniffing on binary input"]

CURSOR = "glaredb_ext_parquet::column::read_buffer::ReadCursor"
UNCHECKED = ("read_next_unchecked", "peek_next_unchecked", "read_bytes_unchecked", "skip_bytes_unchecked", "take", "read_into_unchecked")


def _is_unchecked(name):
    return name.startswith(CURSOR + "::") and name.rsplit("::", 1)[-1].split("<")[0] in UNCHECKED


def _remaining_guards(fn, _facts=None, depth=0, want_switch=True):
    """blocks that compare something with a cursor's `remaining` (field or remaining() call) and branch on it"""
    out = []
    for b, i, pl, rv, ln in fn.assigns():
        if rv[0] == "bin" and rv[1] in ("Lt", "Le", "Gt", "Ge", "Eq", "Ne"):
            for op in (rv[2], rv[3]):
                o = fn.origin(op, at=b)
                proj = o[2] if len(o) > 2 and isinstance(o[2], list) else []
                is_rem = any(isinstance(p, list) and p[0] == "f" and p[1] == "remaining" for p in proj)
                if not is_rem and o[0] == "call" and o[1].name.endswith("::remaining"):
                    is_rem = True
                # derived: remaining / size, remaining - x …
                if not is_rem and o[0] == "rv" and o[1][0] == "bin":
                    for op2 in (o[1][2], o[1][3]):
                        o2 = fn.origin(op2, at=b)
                        p2 = o2[2] if len(o2) > 2 and isinstance(o2[2], list) else []
                        if any(isinstance(p, list) and p[0] == "f" and p[1] == "remaining" for p in p2) or (o2[0] == "call" and o2[1].name.endswith("::remaining")):
                            is_rem = True
                if is_rem:
                    t = fn.term(b)
                    if t[0] == "switch" or not want_switch:
                        out.append(b)
    # quantified guard: `if cursors.iter().any(|c| c.remaining() < n) { return Err }` — the comparison lives in the closure handed
    # to Iterator::any / all, the branch on its result is the guard
    if _facts is not None and depth == 0:
        for c in fn.calls():
            if c.name.rsplit("::", 1)[-1] in ("any", "all") and "Iterator" in c.name and c.target is not None and not c.dst[1]:
                clos = [a for a in c.args[1:] if a[0] in ("c", "m")]
                hit = False
                for a in clos:
                    ty = fn.locals[a[1][0]] if a[1][0] < len(fn.locals) else ""
                    m = re.search(r"\{closure@|\[closure@", ty)
                    for b2, i2, pl2, rv2, ln2 in fn.assigns():
                        if pl2[0] == a[1][0] and not pl2[1] and rv2[0] == "agg" and rv2[1][0] == "closure":
                            crec = _facts.fn(rv2[1][1])
                            if crec and _remaining_guards(Fn(crec), _facts, 1, want_switch=False):
                                hit = True
                if hit:
                    for b in fn.reachable_from(c.target):
                        t = fn.term(b)
                        if t[0] == "switch" and t[1][0] in ("c", "m") and t[1][1][0] == c.dst[0]:
                            out.append(b)
                            break
    return out


def run(ctx):
    facts = ctx["facts"]
    cg = CallGraph(facts)
    res = []
    r = RuleResult("C19-GUARD", "unchecked Parquet cursor reads are dominated by a `remaining` comparison, or wrapped in unsafe fns whose callers are", floor=21)
    fn_cache = {}

    def F(name):
        if name not in fn_cache:
            rec = facts.fn(name)
            fn_cache[name] = Fn(rec) if rec else None
        return fn_cache[name]

    def site_guarded(fn, bb, call=None):
        if any(fn.dominates(g, bb) and g != bb for g in _remaining_guards(fn, facts)):
            return "compared with remaining"
        # cursor freshly cut to an exact size: take_next(N)?.read_next_unchecked::<T>() with size_of::<T>() <= N
        if call is not None and call.args:
            o = fn.origin(call.args[0], through_calls=("::branch", "::unwrap", "::expect"), at=call.bb)
            if o[0] == "call" and o[1].name.endswith("OwnedReadBuffer::take_next") and len(o[1].args) > 1:
                k = op_const(o[1].args[1])
                ga = call.gargs or []
                size = {"u8": 1, "i8": 1, "u16": 2, "i16": 2, "u32": 4, "i32": 4, "f32": 4, "u64": 8, "i64": 8, "f64": 8}.get(ga[0] if ga else "")
                if k and size and k.get("v", 0) >= size and call.name.rsplit("::", 1)[-1].startswith(("read_next_unchecked", "peek_next_unchecked")):
                    return f"cursor cut by take_next({k['v']}) ≥ size_of::<{ga[0]}>()"
        # closure bodies: the guard may be in the function that creates the closure
        if fn.rec.get("dk") == "Closure" and fn.rec.get("parent"):
            pf = F(fn.rec["parent"])
            if pf is not None:
                for b2, i2, pl2, rv2, ln2 in pf.assigns():
                    if rv2[0] == "agg" and rv2[1][0] == "closure" and rv2[1][1] == fn.path:
                        if any(pf.dominates(g, b2) for g in _remaining_guards(pf, facts)):
                            return "guard in the enclosing function dominates the closure"
        return None

    def check_callers(name, depth, seen):
        """all call sites of unsafe fn `name` guarded (or in unsafe fns whose callers are)? → list of failing (fn, line)"""
        bad = []
        for caller in sorted(cg.callers(name)):
            if caller in seen:
                continue
            cf = F(caller)
            if cf is None or cg.nodes.get(caller, {}).get("krate") not in ("glaredb_ext_parquet",):
                continue
            for c in cf.calls():
                if c.name == name or c.decl == name:
                    if site_guarded(cf, c.bb, c):
                        continue
                    if cf.rec.get("unsafe") and depth < 3:
                        sub = check_callers(caller, depth + 1, seen | {caller})
                        bad.extend(sub)
                        if not cg.callers(caller):
                            pass
                    else:
                        bad.append((caller, c.line, cf.rec["file"]))
        return bad

    for rec in facts.all_fns(["glaredb_ext_parquet"]):
        if "testutil" in rec["id"] or rec["id"].startswith(CURSOR + "::"):
            continue        # the primitives themselves: their callers carry the obligation
        fn = Fn(rec)
        sites = [c for c in fn.calls() if _is_unchecked(c.name)]
        if not sites:
            continue
        r.functions.add(fn.id)
        for c in sites:
            r.call_sites += 1
            prim = c.name.rsplit("::", 1)[-1].split("<")[0]
            how = site_guarded(fn, c.bb, c)
            if how:
                r.inst({"fn": fn.id, "primitive": prim, "line": c.line, "how": how})
                continue
            if rec.get("unsafe") or (rec.get("root") and (facts.fn(rec["root"]) or {}).get("unsafe")):
                root = rec.get("root") or fn.path
                bad = check_callers(root, 1, {root})
                live_callers = [x for x in cg.callers(root)]
                if not bad and live_callers:
                    r.inst({"fn": fn.id, "primitive": prim, "line": c.line, "how": f"unsafe fn; all {len(live_callers)} caller site(s) guarded"})
                    continue
                if not live_callers:
                    r.inst({"fn": fn.id, "primitive": prim, "line": c.line, "how": "unsafe fn without callers"})
                    continue
                r.inst({"fn": fn.id, "primitive": prim, "line": c.line, "how": "UNGUARDED via callers", "callers": [b[0] for b in bad][:4]}, False)
                r.violate(fn.id, f"{prim}", f"unchecked cursor read ({prim}) in an unsafe fn whose caller(s) {[b[0].rsplit('::', 2)[-2] + '::' + b[0].rsplit('::', 1)[-1] for b in bad][:3]} "
                          "do not compare the needed size with the cursor's remaining bytes: a truncated or lying page reads past the buffer", rec["file"], c.line)
                continue
            meta = cg.nodes.get(fn.id, {})
            if not cg.callers(fn.id) and str(meta.get("vis", "")).startswith("Restricted") and meta.get("dk") == "Fn" and not meta.get("trait_item"):
                r.inst({"fn": fn.id, "primitive": prim, "line": c.line, "how": "module-private free function with no caller and no address taken (dead code)"})
                r.exempt(fn.id, "module-private free function that nothing calls or references: its unchecked reads are unreachable; "
                                "the obligation returns as soon as a caller appears")
                continue
            r.inst({"fn": fn.id, "primitive": prim, "line": c.line, "how": "UNGUARDED"}, False)
            r.violate(fn.id, f"{prim}", f"unchecked cursor read ({prim}) not dominated by a comparison with the cursor's remaining bytes: a truncated or lying "
                      "page makes it read past the buffer (debug_assert abort / out-of-bounds read)", rec["file"], c.line)
    res.append(r)
    res.append(rule_footer(facts))
    res.append(rule_utf8(facts))
    from . import c19b
    res.extend([c19b.rule_sign(facts, cg), c19b.rule_copylen(facts, cg), c19b.rule_slice(facts, cg), c19b.rule_panic(facts, cg),
                c19b.rule_bounds(facts, cg), c19b.rule_listsz(facts, cg), c19b.rule_dictidx(facts, cg), c19b.rule_stale(facts, cg)])
    return res


def rule_footer(facts):
    from .mir import taint, operand_locals
    r = RuleResult("C19-FOOTER", "footer: size ≥ MIN_FILE_SIZE and magic checked before decoding; footer-derived length compared with the file size before it sizes a buffer", floor=2)
    recs = facts.fns_matching(lambda i: "metadata::loader::MetaDataLoader::load_from_file" in i and "closure" in i)
    if not recs:
        r.missing_anchor("MetaDataLoader::load_from_file (async body)")
        return r
    fn = Fn(recs[0])
    r.functions.add(fn.id)
    size_calls = [c for c in fn.calls() if c.name.endswith("AnyFile::call_size")]
    lens = [c for c in fn.calls() if c.name.endswith("::from_le_bytes")]
    sinks = [c for c in fn.calls() if re.search(r"Vec::<T, A>::(resize|reserve|with_capacity|resize_with)$", c.name) or c.name.endswith("vec::from_elem")]
    decode = [c for c in fn.calls() if c.name.endswith("decode_metadata")]
    if not size_calls or not lens or not decode:
        r.missing_anchor("call_size / from_le_bytes / decode_metadata calls in load_from_file")
        return r
    size_place = size_calls[0].dst
    tainted = taint(fn, {c.dst[0] for c in lens})
    # comparisons between a length-derived value and the stored file size
    guards = []
    for b, i, pl, rv, ln in fn.assigns():
        if rv[0] == "bin" and rv[1] in ("Gt", "Ge", "Lt", "Le"):
            ls = [operand_locals(rv[2], set()), operand_locals(rv[3], set())]
            has_len = any(x & tainted for x in ls)
            has_size = False
            for op in (rv[2], rv[3]):
                o = fn.origin(op, at=b)
                if op[0] in ("c", "m") and op[1] == size_place:
                    has_size = True
                for b2, i2, pl2, rv2, ln2 in fn.assigns():
                    if not pl2[1] and pl2[0] in operand_locals(op, set()) and rv2[0] == "use" and rv2[1][0] in ("c", "m") and rv2[1][1] == size_place:
                        has_size = True
            if has_len and has_size and fn.term(b)[0] == "switch":
                guards.append(b)
    for c in sinks:
        if not (operand_locals(c.args, set()) & tainted):
            continue
        r.call_sites += 1
        ok = any(fn.dominates(g, c.bb) for g in guards)
        r.inst({"fn": fn.id, "sink": c.name.rsplit("::", 1)[-1], "line": c.line, "length_compared_with_file_size": ok}, ok)
        if not ok:
            r.violate(fn.id, "footer-len->" + c.name.rsplit("::", 1)[-1], "the footer's metadata length sizes a buffer without having been compared with the file size: "
                      "a corrupt length allocates up to 4 GiB / seeks before the start of the file", recs[0]["file"], c.line)
    # size and magic checks dominate decode_metadata
    min_cmp = [b for b, i, pl, rv, ln in fn.assigns() if rv[0] == "bin" and rv[1] in ("Lt", "Le", "Ge", "Gt") and
               any((op_const(o) or {}).get("v") in (12, 8) for o in (rv[2], rv[3])) and fn.term(b)[0] == "switch"]
    magic = [c for c in fn.calls() if c.decl in ("std::cmp::PartialEq::ne", "std::cmp::PartialEq::eq") and "[u8" in str(c.callee.get("args"))]
    for d in decode:
        ok = any(fn.dominates(b, d.bb) for b in min_cmp) and sum(1 for m in magic if fn.dominates(m.bb, d.bb)) >= 1
        r.inst({"fn": fn.id, "decode_line": d.line, "min_size_checks": len(min_cmp), "magic_comparisons": len(magic)}, ok)
        if not ok:
            r.violate(fn.id, "decode-without-validation", "decode_metadata is reachable without the minimum-size check and the PAR1 magic comparison", recs[0]["file"], d.line)
    return r


def rule_utf8(facts):
    r = RuleResult("C19-UTF8", "from_utf8_unchecked is only used by the storage getters, never on bytes coming straight from a file reader", floor=1)
    allowed = ("glaredb_core::arrays::array::physical_type::", "glaredb_core::arrays::string::", "glaredb_core::arrays::array::array_buffer::")
    n = 0
    for rec in facts.all_fns(["glaredb_core", "glaredb_ext_parquet", "glaredb_ext_csv"], contains="from_utf8_unchecked"):
        if "from_utf8_unchecked" not in str(rec["bbs"]):
            continue
        fn = Fn(rec)
        for c in fn.calls():
            if c.name.endswith("from_utf8_unchecked"):
                n += 1
                ok = any(a in fn.path for a in allowed)
                r.functions.add(fn.id)
                r.inst({"fn": fn.id, "line": c.line, "in_storage_layer": ok}, ok)
                if not ok:
                    r.violate(fn.id, "from_utf8_unchecked", "from_utf8_unchecked outside the UTF-8 storage getters: unvalidated file bytes could become a &str", rec["file"], c.line)
    return r


CLAIM = {
    "text": "Guard/taint rules over the Parquet reader's MIR: every unchecked cursor primitive must be dominated by a comparison with the "
            "cursor's remaining bytes (in the function, in the enclosing function of a closure, by an exact take_next(N) cut, or in all "
            "callers of an unsafe wrapper up to depth 3); the footer length must be compared with the file size before it sizes a buffer and "
            "size/magic checks must dominate metadata decoding; from_utf8_unchecked stays in the storage layer. Decides the untrusted-length "
            "discipline at every site. Second group over the live reader functions: signed file-decoded fields are sign-checked before they become "
            "unsigned lengths (locally or by a field invariant at every construction site), copy_from_slice operands are equal-length by "
            "construction, constant-range indexing of file-decoded byte vectors is length-guarded, explicit panics are confined to a reviewed "
            "table, explicit index checks imply index < len, thrift list counts are bounded by the remaining input. That no byte string at "
            "all can crash the reader is not decided. Dictionary indices decoded from a page pass a bounds validation of the index buffer on every path before an engine API uses them as row indices. Where a slice bound was compared with a running length variable, the sliced buffer is not re-sliced between the comparison and the slice (no stale guard).",
    "note": "trusted: rustc MIR (async bodies are re-stitched across await points); the list of unchecked primitives of ReadCursor; known "
            "findings confirmed with single-byte corruptions kept under repro/parquet_corrupt/",
    "technique": "static analysis: MIR guard-dominance + taint rules, interprocedural through unsafe wrappers (rustc_private driver)",
}
