"""Workspace call graph over the facts (class-hierarchy treatment of unresolved trait-method and dyn
calls: such a call targets every workspace impl of that trait method). Closures are linked from the
function that creates them; function items used as values (address taken) count as calls.
Cached per facts directory."""
import os, pickle

ENGINE_CRATES = ["glaredb_core", "glaredb_parser", "glaredb_ext_csv", "glaredb_ext_parquet", "glaredb_rt_native",
                 "glaredb_error", "glaredb_wasm", "glaredb", "glaredb_ext_default", "glaredb_ext_spark",
                 "glaredb_ext_tpch_gen", "glaredb_ext_iceberg", "glaredb_ext_delta", "glaredb_http", "glaredb_python", "glaredb_node"]


import re
_ADT_RE = re.compile(r"\b((?:glaredb\w*|harness|logutil|docgen)(?:::\w+)+)")


def _fn_consts(x, acc):
    if isinstance(x, dict):
        if x.get("k") == "fn" and "def" in x:
            acc.append(x["def"])
        for v in x.values():
            _fn_consts(v, acc)
    elif isinstance(x, list):
        for v in x:
            _fn_consts(v, acc)


# impls of these external traits are not entry points by themselves: they are reached through resolved calls or through
# an external generic function instantiated at the type ("extgen" edges)
_DERIVE_NOISE = re.compile(r"serde|::fmt::|::clone::Clone|::cmp::|::hash::Hash|::default::Default|::convert::(From|Into|TryFrom|AsRef)|::marker::|::borrow::")


class CallGraph:
    def __init__(self, facts):
        p = os.path.join(facts.dir, "callgraph.pkl")
        if os.path.exists(p):
            d = pickle.load(open(p, "rb"))
        else:
            d = self._build(facts)
            pickle.dump(d, open(p + ".tmp", "wb"))
            os.replace(p + ".tmp", p)
        self.nodes = d["nodes"]          # id -> meta (krate, file, line, trait_item, impl_trait, root, vis, unsafe, self_adt)
        self.edges = d["edges"]          # id -> set(ids)  (resolved + class-hierarchy dyn)
        self.xedges = d["xedges"]        # id -> set(ids)  (external generic fn instantiated at a workspace type → its external-trait impls)
        self.sites = d["sites"]          # id -> list of (callee_decl_or_res, line, kind)
        self.by_trait_item = d["by_trait_item"]
        self.inst_variants = d["inst_variants"]
        self.variants_by_fn = d["variants_by_fn"]  # (enum path, variant name) constructed somewhere
        self.inst_adts = d["inst_adts"]   # ADTs constructed somewhere (aggregate / unit const / const item tree)
        self._rev = None

    @staticmethod
    def _build(facts):
        nodes, raw, by_trait_item = {}, {}, {}
        inst_adts = set()
        inst_variants = set()
        variants_by_fn = {}

        def scan_types(x):
            if isinstance(x, dict):
                if x.get("k") == "c" and isinstance(x.get("ty"), str):
                    inst_adts.add(x["ty"].split("<", 1)[0])
                if x.get("k") == "struct" and x.get("def"):
                    inst_adts.add(x["def"])
                    if "::" in x["def"]:
                        inst_variants.add(tuple(x["def"].rsplit("::", 1)))
                if x.get("k") in ("path", "call") and "Ctor" in str(x.get("dk", "")) + str(x.get("fdk", "")):
                    d0 = x.get("def") or x.get("f") or ""
                    inst_adts.add(d0)
                    inst_adts.add(d0.rsplit("::", 1)[0])
                    if "::" in d0:
                        inst_variants.add(tuple(d0.rsplit("::", 1)))
                if isinstance(x.get("ty"), str) and x.get("k") in ("path", "call", "struct"):
                    inst_adts.add(x["ty"].lstrip("&").split("<", 1)[0])
                for v in x.values():
                    scan_types(v)
            elif isinstance(x, list):
                for v in x:
                    scan_types(v)

        for c in facts.records("const"):
            scan_types(c["e"])
        for rec in facts.all_fns(None):
            fid = rec["id"]
            if fid in nodes:
                continue
            nodes[fid] = {k: rec.get(k) for k in ("krate", "file", "line", "trait_item", "impl_trait", "root", "parent", "vis", "unsafe", "self_adt", "dk", "name")}
            if rec.get("trait_item"):
                by_trait_item.setdefault(rec["trait_item"], []).append(fid)
            out = []
            for blk in rec["bbs"]:
                if blk["cl"]:
                    continue
                t = blk["t"]
                if t[0] in ("call", "tailcall"):
                    c = t[1]
                    line = t[6] if t[0] == "call" else t[3]
                    if "def" in c:
                        if c.get("res") and c.get("rkind") in ("item", "closure_once"):
                            out.append((c["res"], line, "res"))
                        elif c.get("rkind") in ("unresolved", "virtual") or ("trait" in c and "res" not in c):
                            out.append((c["def"], line, "dyn"))
                        else:
                            out.append((c.get("res") or c["def"], line, "res"))
                    if "def" in c and not c.get("local", True) and not c.get("res_local", False):
                        for ga in (c.get("res_args") or c.get("args") or []):
                            for m in _ADT_RE.findall(ga):
                                out.append((m, line, "extgen"))
                    acc = []
                    _fn_consts(t[2], acc)
                    for d in acc:
                        out.append((d, line, "fnval"))
                    for a in t[2]:
                        if a[0] == "k" and a[1].get("k") == "c":
                            inst_adts.add(a[1].get("ty", "").split("<", 1)[0])
                for s in blk["s"]:
                    if s[0] == "a":
                        rv = s[2]
                        if rv[0] == "agg" and rv[1][0] == "adt":
                            inst_adts.add(rv[1][1])
                            inst_variants.add((rv[1][1], rv[1][2]))
                            variants_by_fn.setdefault(fid, set()).add((rv[1][1], rv[1][2]))
                        elif rv[0] == "use" and rv[1][0] == "k" and rv[1][1].get("k") == "c":
                            inst_adts.add(rv[1][1].get("ty", "").split("<", 1)[0])
                        if rv[0] == "agg" and rv[1][0] in ("closure", "coroutine", "coroutine_closure"):
                            out.append((rv[1][1], s[3], "closure"))
                        acc = []
                        _fn_consts(rv, acc)
                        for d in acc:
                            out.append((d, s[3], "fnval"))
            raw[fid] = out
        edges = {}
        ext_impls = {}
        for fid, m in nodes.items():
            it = m.get("impl_trait")
            if it and not it.startswith("glaredb") and m.get("self_adt"):
                ext_impls.setdefault(m["self_adt"], []).append(fid)
        xedges = {}
        for fid, out in raw.items():
            es = set()
            for tgt, line, kind in out:
                if kind == "extgen":
                    # external generic function instantiated at a workspace type: it may call any impl of an
                    # external trait on that type (serde, fmt, cmp, hash, …)
                    if tgt in ext_impls:
                        xedges.setdefault(fid, set()).update(ext_impls[tgt])
                    continue
                if kind == "dyn":
                    for impl in by_trait_item.get(tgt, []):
                        sa = nodes[impl].get("self_adt")
                        # rapid type analysis: an impl on a type that is never constructed cannot be the receiver
                        if sa is None or sa in inst_adts:
                            es.add(impl)
                    if tgt in nodes:   # default method body
                        es.add(tgt)
                else:
                    es.add(tgt)
                    # a resolved call to a trait's default method body or impl is exact
            edges[fid] = es
        return {"nodes": nodes, "edges": edges, "xedges": xedges, "sites": raw, "by_trait_item": by_trait_item, "inst_adts": inst_adts, "inst_variants": inst_variants, "variants_by_fn": variants_by_fn}

    @property
    def rev(self):
        if self._rev is None:
            r = {}
            for a, bs in self.edges.items():
                for b in bs:
                    r.setdefault(b, set()).add(a)
            self._rev = r
        return self._rev

    def callers(self, fid):
        return self.rev.get(fid, set())

    def reachable(self, roots, within=None, use_x=False):
        seen = set()
        st = list(roots)
        while st:
            x = st.pop()
            if x in seen:
                continue
            seen.add(x)
            for y in self.edges.get(x, ()):
                if y not in seen and (within is None or within(y)):
                    st.append(y)
            if use_x:
                for y in self.xedges.get(x, ()):
                    if y not in seen and (within is None or within(y)):
                        st.append(y)
        return seen

    def engine_roots(self, facts):
        """entry points of the engine: registry-row methods, public engine/session/runtime API, the CLI, parser::parse"""
        roots = set()
        for row in facts.records("row"):
            for m in row["methods"]:
                roots.add(m["def"])
        for n, m in self.nodes.items():
            if m.get("vis") == "Public" and (n.startswith("glaredb_core::engine::") or n.startswith("glaredb_rt_native::")
                                             or n.startswith("glaredb_core::runtime::")):
                roots.add(n)
            if n in ("glaredb_parser::parser::parse", "glaredb::main", "glaredb::run"):
                roots.add(n)
            if m.get("krate") == "glaredb" and m.get("name") == "main":
                roots.add(n)
            it = m.get("impl_trait")
            if it and not it.startswith("glaredb") and (m.get("self_adt") is None or m.get("self_adt") in self.inst_adts) \
                    and not _DERIVE_NOISE.search(it):
                roots.add(n)   # impl of an external trait (Future, Stream, Iterator, Drop, Wake, Display…): called by external code
        # vtable closures of the registries are created in assoc consts (not in fn bodies): every closure under a
        # `*VTable::VTABLE` const is an entry, it calls the trait methods generically (dyn edges + RTA)
        for n in self.nodes:
            if "VTable::VTABLE::{closure" in n or "VTABLE::{closure" in n:
                roots.add(n)
        return roots

    def live(self, facts):
        if getattr(self, "_live", None) is None:
            self._live = self.reachable(self.engine_roots(facts), use_x=True)
        return self._live

    def live_variants(self, facts):
        """(enum, variant) pairs constructed in live functions or const items"""
        if getattr(self, "_lv", None) is None:
            lv = set()
            live = self.live(facts)
            for fid, vs in self.variants_by_fn.items():
                if fid in live:
                    lv |= vs
            all_fn = set().union(*self.variants_by_fn.values()) if self.variants_by_fn else set()
            lv |= (self.inst_variants - all_fn)      # from const trees
            self._lv = lv
        return self._lv

    def sccs(self, nodes):
        """Tarjan SCCs of the subgraph induced by `nodes` (iterative)."""
        nodes = set(nodes)
        index, low, onst, stack, out = {}, {}, set(), [], []
        counter = [0]
        for root in nodes:
            if root in index:
                continue
            work = [(root, iter(sorted(y for y in self.edges.get(root, ()) if y in nodes)))]
            index[root] = low[root] = counter[0]
            counter[0] += 1
            stack.append(root)
            onst.add(root)
            while work:
                v, it = work[-1]
                adv = False
                for w in it:
                    if w not in index:
                        index[w] = low[w] = counter[0]
                        counter[0] += 1
                        stack.append(w)
                        onst.add(w)
                        work.append((w, iter(sorted(y for y in self.edges.get(w, ()) if y in nodes))))
                        adv = True
                        break
                    elif w in onst:
                        low[v] = min(low[v], index[w])
                if adv:
                    continue
                work.pop()
                if work:
                    u = work[-1][0]
                    low[u] = min(low[u], low[v])
                if low[v] == index[v]:
                    comp = []
                    while True:
                        w = stack.pop()
                        onst.discard(w)
                        comp.append(w)
                        if w == v:
                            break
                    out.append(comp)
        return out
