"""C03 — results are independent of partitions, batch size and join algorithm (narrow clauses).
  C03-RANGE  `partitions` and `batch_size` can only be set to values inside a finite range with lower bound ≥ 1: the write
             of the config field is dominated by the range comparisons (directly or via Partitions::validate_value)
  C03-COUNT  every partition barrier (DelayedPartitionCount::set, PartitionWakers::init_for_partitions, waker-table resize,
             remaining_inputs) in create_partition_*_states / prepare_for_partitions is initialised with the `partitions`
             parameter itself — not a constant, not an arithmetic variation
  C03-LIMIT  PhysicalLimit::poll_execute (one offset/count budget shared by all partitions): every path that skips rows because
             remaining_offset > 0 writes remaining_offset, every path that emits rows writes remaining_count
Not decided: that results are equal across configurations (a statement about values)."""
import re
from .framework import RuleResult
from .mir import Fn, op_const, switch_edges

EXPLANATION = ("Dominance rule for the configuration setters (legal range enforced before assignment) and a provenance rule for every barrier "
               "initialisation in the operators (argument is the partitions parameter by pure copy). A barrier that expects a different number "
               "of arrivals than there are partitions hangs or releases early, making results depend on the partition count. Equality of "
               "results across configurations is not decided.")
NOT_DECIDED = ["equality of results across partition counts / batch sizes / join algorithms (values)"]

CFG = "glaredb_core::config::session::"


def bounds_on_path(fn, target_bb, value_pred):
    """(lower, upper) implied for the checked value on every path reaching target_bb, from comparisons with constants"""
    lower, upper = None, None
    for b, i, pl, rv, ln in fn.assigns():
        if rv[0] != "bin" or rv[1] not in ("Lt", "Le", "Gt", "Ge"):
            continue
        ca, cb = op_const(rv[2]), op_const(rv[3])
        if (ca is None) == (cb is None):
            continue
        k = (ca or cb).get("v")
        val_op = rv[3] if ca else rv[2]
        if not isinstance(k, int) or not value_pred(val_op, b):
            continue
        op = rv[1]
        if ca:   # const OP val  ⇒ flip
            op = {"Lt": "Gt", "Le": "Ge", "Gt": "Lt", "Ge": "Le"}[op]
        t = fn.term(b)
        if t[0] != "switch" or t[1][0] not in ("c", "m") or t[1][1] != pl:
            continue
        for v, tgt in switch_edges(t):
            if not fn.edge_dominates(b, tgt, target_bb):
                continue
            truth = v != 0
            # val OP k is `truth` on every path to the target
            if op == "Lt":
                if truth: upper = min(upper, k - 1) if upper is not None else k - 1
                else: lower = max(lower, k) if lower is not None else k
            elif op == "Le":
                if truth: upper = min(upper, k) if upper is not None else k
                else: lower = max(lower, k + 1) if lower is not None else k + 1
            elif op == "Gt":
                if truth: lower = max(lower, k + 1) if lower is not None else k + 1
                else: upper = min(upper, k) if upper is not None else k
            elif op == "Ge":
                if truth: lower = max(lower, k) if lower is not None else k
                else: upper = min(upper, k - 1) if upper is not None else k - 1
    return lower, upper


def rule_range(facts):
    r = RuleResult("C03-RANGE", "partitions / batch_size are assigned only inside a finite range with lower bound ≥ 1", floor=2)
    # validate_value summary
    vrec = facts.fn(CFG + "Partitions::validate_value")
    vbounds = None
    if vrec:
        vf = Fn(vrec)
        oks = [b for b, i, pl, rv, ln in vf.assigns() if rv[0] == "agg" and rv[1][0] == "adt" and rv[1][1].endswith("result::Result") and rv[1][2] == "Ok"]
        if oks:
            vbounds = bounds_on_path(vf, oks[0], lambda op, b: vf.origin(op, at=b)[0] == "arg")
            r.functions.add(vf.id)
            ok = vbounds[0] is not None and vbounds[0] >= 1 and vbounds[1] is not None
            r.inst({"fn": vf.id, "Ok_implies": {"lower": vbounds[0], "upper": vbounds[1]}}, ok)
            if not ok:
                r.violate(vf.id, "validate_value", f"Partitions::validate_value accepts values outside a finite range starting at 1 (derived bounds {vbounds})", vrec["file"], vrec["line"])
    found = 0
    for rec in facts.all_fns(["glaredb_core"], contains="SessionConfig"):
        if "SessionConfig" not in str(rec["locals"]):
            continue
        fn = Fn(rec)
        for b, i, pl, rv, ln in fn.assigns():
            flds = [p for p in pl[1] if isinstance(p, list) and p[0] == "f"]
            if not flds or flds[-1][1] not in ("partitions", "batch_size") or not flds[-1][2].endswith("SessionConfig"):
                continue
            o = fn.origin(["c", [pl[0], []]], at=b)
            if o[0] != "arg":
                continue       # building a fresh config (defaults) — not a user-controlled assignment
            c0 = op_const(rv[1]) if rv[0] == "use" else None
            if c0 is not None:
                continue
            found += 1
            r.functions.add(fn.id)
            val_calls = [c for c in fn.calls() if c.name == CFG + "Partitions::validate_value" and fn.dominates(c.bb, b) and c.bb != b]

            def is_val(op, at):
                o2 = fn.origin(op, through_calls=("::branch", "::try_as_usize", "::unwrap", "::try_into", "::try_from"), at=at)
                return o2[0] in ("call", "arg", "local")
            lo, up = bounds_on_path(fn, b, is_val)
            if val_calls and vbounds and vbounds[0] is not None and vbounds[1] is not None:
                lo = vbounds[0] if lo is None else max(lo, vbounds[0])
                up = vbounds[1] if up is None else min(up, vbounds[1])
            ok = lo is not None and lo >= 1 and up is not None
            r.inst({"fn": fn.id, "field": flds[-1][1], "line": ln, "lower": lo, "upper": up, "via_validate_value": bool(val_calls)}, ok)
            if not ok:
                r.violate(fn.id, f"assign:{flds[-1][1]}", f"`{flds[-1][1]}` is assigned a user value without an enforced range (derived bounds: lower={lo}, upper={up}): "
                          "0 partitions / batch size 0 leave the space of legal configurations (division by zero, empty barriers, hangs)", rec["file"], ln)
    if found == 0:
        r.missing_anchor("assignment of SessionConfig.partitions / batch_size from a setting value")
    return r


BARRIERS = ("DelayedPartitionCount::set", "PartitionWakers::init_for_partitions")


def rule_count(facts):
    r = RuleResult("C03-COUNT", "partition barriers are initialised with the `partitions` parameter by pure copy", floor=15)
    for rec in facts.all_fns(["glaredb_core", "glaredb_ext_parquet", "glaredb_ext_csv"], contains=("create_partition_", "prepare_for_partitions")):
        if not re.search(r"::(create_partition_\w+|prepare_for_partitions)(::\{closure#\d+\})*$", rec["id"]):
            continue
        if not any(bn.split("::")[-1] in str(rec["bbs"]) for bn in BARRIERS) and "remaining_inputs" not in str(rec["bbs"]):
            continue
        fn = Fn(rec)
        sites = []
        for c in fn.calls():
            if any(c.name.endswith(bn) for bn in BARRIERS) and len(c.args) > 1:
                sites.append((c.name.rsplit("::", 2)[-2] + "::" + c.name.rsplit("::", 1)[-1], c.args[1], c.bb, c.line))
            elif c.name.endswith("Vec::<T, A>::resize") and "Waker" in str(c.gargs) and len(c.args) > 1:
                sites.append(("Vec<Option<Waker>>::resize", c.args[1], c.bb, c.line))
            elif c.name.endswith("MergeQueue::prepare_for_partitions") and len(c.args) > 1:
                sites.append(("MergeQueue::prepare_for_partitions", c.args[1], c.bb, c.line))
        for b, i, pl, rv, ln in fn.assigns():
            flds = [p[1] for p in pl[1] if isinstance(p, list) and p[0] == "f"]
            if flds and flds[-1] == "remaining_inputs" and rv[0] == "use":
                sites.append(("remaining_inputs =", rv[1], b, ln))
        for what, arg, bb, line in sites:
            r.functions.add(fn.id)
            r.call_sites += 1
            o = fn.origin(arg, at=bb)
            proj = [p for p in (o[2] if len(o) > 2 and isinstance(o[2], list) else []) if isinstance(p, list) and p[0] == "f"]
            ok = False
            src = o[0]
            if o[0] == "arg" and fn.locals[o[1]].replace("&", "") == "usize" and not proj:
                ok, src = True, f"parameter {fn.local_name(o[1])}"
            elif o[0] == "arg" and o[1] == 1 and rec["dk"] == "Closure" and proj:
                # captured variable: must be the enclosing function's usize parameter
                prec = facts.fn(rec["parent"]) if rec.get("parent") else None
                if prec:
                    pf = Fn(prec)
                    for b2, i2, pl2, rv2, ln2 in pf.assigns():
                        if rv2[0] == "agg" and rv2[1][0] == "closure" and rv2[1][1] == fn.path and proj[0][1].isdigit() and int(proj[0][1]) < len(rv2[2]):
                            po = pf.origin(rv2[2][int(proj[0][1])], at=b2)
                            if po[0] == "arg" and pf.locals[po[1]].replace("&", "") == "usize":
                                ok, src = True, f"captured parameter {pf.local_name(po[1])}"
            elif o[0] == "const":
                src = f"constant {o[1].get('v')}"
            elif o[0] == "rv":
                src = f"computed ({o[1][0]} {o[1][1] if len(o[1]) > 1 else ''})"
            r.inst({"fn": fn.id, "barrier": what, "line": line, "initialised_from": src}, ok)
            if not ok:
                r.violate(fn.id, f"barrier:{what}", f"{what} is initialised from {src} instead of the `partitions` parameter: the barrier waits for a different number of "
                          "arrivals than there are partitions (hang, or release before all partitions contributed)", rec["file"], line)
    return r


LIMIT_FN = "<glaredb_core::execution::operators::limit::PhysicalLimit as glaredb_core::execution::operators::ExecuteOperator>::poll_execute"


def rule_limit(facts):
    """LIMIT/OFFSET keep one budget pair (remaining_offset, remaining_count) shared by all partitions behind a mutex. Whatever a
    call consumes from the current batch has to be taken off the budget before it returns, otherwise the rows produced depend on
    how the input is cut into batches and spread over partitions:
      (a) on every path from the `remaining_offset > 0` edge to a return, remaining_offset is written;
      (b) every path through a call that hands rows to `output` (Batch::clone_from_other) writes remaining_count."""
    r = RuleResult("C03-LIMIT", "PhysicalLimit::poll_execute: the shared offset/count budget is updated on every path that skips or emits rows", floor=4)
    rec = facts.fn(LIMIT_FN)
    if rec is None:
        r.missing_anchor("PhysicalLimit::poll_execute")
        return r
    fn = Fn(rec)
    r.functions.add(fn.id)

    def writes(field):
        out = set()
        for b, i, pl, rv, ln in fn.assigns():
            fl = [p for p in pl[1] if isinstance(p, list) and p[0] == "f" and len(p) > 2]
            if fl and fl[-1][1] == field and fl[-1][2].endswith("limit::StateInner"):
                out.add(b)
        return out

    w_off, w_cnt = writes("remaining_offset"), writes("remaining_count")
    if not w_off or not w_cnt:
        r.missing_anchor("writes of StateInner::remaining_offset / remaining_count")
        return r
    exits = set(fn.exits)
    # error propagation (`?`) leaves the statement failed; only successful returns count
    err = {c.bb for c in fn.calls() if c.decl.endswith("FromResidual::from_residual")}
    w_off, w_cnt = w_off | err, w_cnt | err
    # (a)
    found = False
    for b, i, pl, rv, ln in fn.assigns():
        if rv[0] == "bin" and rv[1] == "Gt" and (op_const(rv[3]) or {}).get("v") == 0 and rv[2][0] in ("c", "m"):
            o = fn.origin(rv[2], at=b)
            fl = [p for p in (o[2] if len(o) > 2 and isinstance(o[2], list) else []) if isinstance(p, list) and p[0] == "f" and len(p) > 2]
            if not (fl and fl[-1][1] == "remaining_offset"):
                continue
            t = fn.term(b)
            if t[0] != "switch":
                continue
            for v, tgt in switch_edges(t):
                if v != 0 or (v == 0 and False):
                    pass
            true_tgts = [tgt for v, tgt in switch_edges(t) if v != 0] or []
            # `switch [0 → else]; otherwise → then`: the non-zero edge is the otherwise target
            if not true_tgts:
                true_tgts = [t[3]] if isinstance(t[3], int) else []
            for tgt in true_tgts:
                found = True
                esc = fn.reachable_from(tgt, avoid=w_off) & exits
                r.inst({"clause": "offset budget written on every path after `remaining_offset > 0`", "line": ln, "unwritten_exits": len(esc)}, not esc)
                if esc:
                    r.violate(fn.id, "remaining_offset-not-consumed", "a path that skips rows because remaining_offset > 0 returns without updating "
                              "remaining_offset: the next batch (of any partition) is cut at the stale offset again — results depend on batch size "
                              "and partition count", rec["file"], ln)
    if not found:
        r.missing_anchor("`remaining_offset > 0` test in PhysicalLimit::poll_execute")
    # (b)
    emits = [c for c in fn.calls() if c.name.endswith("Batch::clone_from_other")]
    if not emits:
        r.missing_anchor("Batch::clone_from_other calls in PhysicalLimit::poll_execute")
    for c in emits:
        r.call_sites += 1
        # a path entry → emit → exit without any remaining_count write
        before = fn.reachable_from(0, avoid=w_cnt)
        bad = False
        if c.bb in before and c.target is not None:
            after = fn.reachable_from(c.target, avoid=w_cnt) & exits
            bad = bool(after)
        r.inst({"clause": "count budget written on every path that emits rows", "emit_line": c.line}, not bad)
        if bad:
            r.violate(fn.id, "remaining_count-not-consumed", "rows are handed to the output on a path that never updates remaining_count: "
                      "the limit is applied per batch instead of per query", rec["file"], c.line)
    return r


def rule_scancap(facts):
    """Stored chunks have their own fixed capacity (2048 rows) while downstream operators size their buffers by the session's batch_size.
    A scan that hands out a whole chunk regardless of the output batch's capacity makes `SET batch_size = 4` crash (index out of
    bounds in a worker, process abort) for any table with more than 4 rows in a chunk. Decided: in the collection scan, the row count that
    is returned is a minimum that involves the output batch's write capacity."""
    from .mir import operand_locals
    r = RuleResult("C03-SCANCAP", "the column-collection scan returns at most the output batch's write capacity per call", floor=1)
    recs = facts.fns_matching(lambda i: "arrays::collection::concurrent::ConcurrentColumnCollection" in i and i.rsplit("::", 1)[-1].startswith("scan_inner"))
    if not recs:
        r.missing_anchor("ConcurrentColumnCollection::scan_inner")
        return r
    for rec in recs:
        if rec.get("dk") == "Closure":
            continue
        fn = Fn(rec)
        if not any(c.name.endswith("ColumnChunk::scan") for c in fn.calls()):
            continue
        r.functions.add(fn.id)
        caps = [c for c in fn.calls() if c.name.endswith("Batch::write_capacity")]
        mins = []
        for c in fn.calls():
            if c.name.endswith("::min") and len(c.args) == 2:
                # one operand derives from a write_capacity result
                seen, st, hit = set(), list(operand_locals(c.args, set())), False
                while st:
                    l = st.pop()
                    if l in seen:
                        continue
                    seen.add(l)
                    for d in fn.defs.get(l, []):
                        if d[0] in ("call", "pcall"):
                            if d[2] in caps:
                                hit = True
                            st.extend(operand_locals(d[2].args, set()))
                        else:
                            st.extend(operand_locals(d[3], set()))
                if hit:
                    mins.append(c)
        # successful returns after a chunk scan: Ok(x) whose x derives from such a min
        ok_sites = 0
        bad = []
        chunk_scans = [c for c in fn.calls() if c.name.endswith("ColumnChunk::scan")]
        for b, i, pl, rv, ln in fn.assigns():
            if rv[0] == "agg" and rv[1][0] == "adt" and rv[1][2] == "Ok" and pl == [0, []] and rv[2]:
                if not any(b in fn.reachable_from(cs.bb) for cs in chunk_scans):
                    continue
                if rv[2][0][0] == "k":
                    continue
                seen, st, hit = set(), list(operand_locals(rv[2][0], set())), False
                while st:
                    l = st.pop()
                    if l in seen:
                        continue
                    seen.add(l)
                    for d in fn.defs.get(l, []):
                        if d[0] in ("call", "pcall"):
                            if d[2] in mins:
                                hit = True
                            st.extend(operand_locals(d[2].args, set()))
                        else:
                            st.extend(operand_locals(d[3], set()))
                ok_sites += 1
                if not hit:
                    bad.append(ln)
        r.inst({"fn": fn.id, "returns_after_chunk_scan": ok_sites, "bounded_by_write_capacity": not bad and ok_sites > 0}, not bad and ok_sites > 0)
        if bad or not ok_sites:
            r.violate(fn.id, "scan-ignores-batch-capacity", "the number of rows returned after scanning a stored chunk is not bounded by the output batch's write capacity: with "
                      "batch_size below the chunk's row count the consumer's buffers are overrun (panic in a worker, process abort)", rec["file"], (bad or [rec["line"]])[0])
    return r


def _flags(facts):
    """per-batch join match flags (see rules/c06.py): a flag vector that survives a batch makes the result depend on batch_size"""
    from .c06 import rule_flags
    return rule_flags(facts, rule="C03-FLAGS")


def run(ctx):
    facts = ctx["facts"]
    from .c08 import rule_idxspace
    # merging sorted runs only happens with ≥ 2 partitions / batches: an index-space mix-up in the merge comparators leaves
    # single-run sorts intact and changes the order (or the LIMIT slice) only for some configurations
    merge = rule_idxspace(facts, rule="C03-MERGEIDX", only=lambda fid: "::sort::binary_merge" in fid or "::sort::merge" in fid or "merge_queue" in fid, floor=4)
    from .c14 import rule_cursor
    # chunked appends only span several chunks for some batch sizes (batch_size > chunk capacity): a cursor that is not advanced
    # leaves default settings intact and corrupts table contents only for other configurations
    return [rule_range(facts), rule_count(facts), rule_limit(facts), merge, rule_cursor(facts, "C03-APPENDCUR", ["glaredb_core"], 1), rule_scancap(facts), _flags(facts)]


CLAIM = {
    "text": "MIR dominance rule on the configuration setters (range comparisons, evaluated symbolically as interval constraints over the "
            "comparison constants, must dominate the assignment) and provenance rule on every barrier initialisation in the operators. "
            "These make the configuration space finite and ≥ 1 and tie every barrier to the actual partition count for all plans; equality "
            "of results across configurations is a value statement and is not decided. Plus a must-write rule for the LIMIT/OFFSET budget that all "
            "partitions share (every path that skips or emits rows updates it), the one operator whose output depends on a cross-partition counter. Plus the index-space rule of the run-merge comparators (shared with C08-IDXSPACE): merging only happens with several runs, so a key/heap index mix-up there changes results only for some partition counts / batch sizes. And the chunked-append cursor pairing (shared with C14-CURSOR): appends span several chunks only for some batch sizes."
            " Plus SCANCAP: the collection scan returns at most the output batch's write capacity per call (found by a hunting agent, repaired)."
            " Plus FLAGS (shared with C06): per-batch join match flags are reset for every batch, so RIGHT JOIN results do not depend on batch_size.",
    "note": "trusted: rustc MIR; barrier API list in rules/c03.py (DelayedPartitionCount::set, PartitionWakers::init_for_partitions, waker Vec::resize, remaining_inputs)",
    "technique": "static analysis: MIR dominance with constant-interval derivation + provenance (rustc_private driver)",
}
