"""C14 — catalog and table contents equal the sequential effect of DDL/DML (narrow clauses).
  C14-RO    every mutating Database::plan_* passes check_can_write()? before delegating to the catalog; check_can_write
            returns Ok only for AccessMode::ReadWrite; the catalog-level plan_* are called only from those methods
  C14-WMC   catalog/storage mutators (create_table/view/schema, drop_entry, insert_table, drop_table, append_batch, flush)
            are called only from the catalog operators, engine bootstrap / extension registration and the catalog itself —
            never from resolver, binder, planner or optimizer (a statement that fails before execution changes nothing)
  C14-EFFECT each catalog operator (CREATE SCHEMA/VIEW/TABLE, CTAS, INSERT, DROP) transitively reaches only the mutators of its
            own statement kind (frozen table OP_EFFECTS): a CREATE never drops, an INSERT never touches the catalog
  C14-ISO   the per-session temp database is built in DatabaseContext::new from fresh MemoryCatalog::empty() /
            StorageManager::empty() values with AccessMode::ReadWrite; the system catalog is created ReadOnly
  C14-SEG   ConcurrentColumnCollection::flush pushes the segment and advances flushed_row_count inside one critical section
Not decided: statement-sequence semantics, snapshot of INSERT…SELECT, name resolution after drops."""
from .framework import RuleResult
from .mir import Fn, op_const, controlling_calls, promoted_variant, lock_calls
from .callgraph import CallGraph
from . import monitors as M

EXPLANATION = ("Who-may-call and must-pass-through rules over the workspace call graph and MIR: write access to a database is gated by "
               "check_can_write on every mutating planning entry and cannot be bypassed; catalog/storage mutators are confined to the catalog "
               "operators and bootstrap code; temp catalogs are created fresh per session; segment publication is atomic under its mutex. "
               "Necessary for isolation between sessions/catalogs and for failed statements to leave no trace; sequence semantics are not decided.")
NOT_DECIDED = ["the effect of statement sequences (values)", "INSERT … SELECT snapshot semantics", "name resolution order after DROP"]

DB = "glaredb_core::catalog::database::Database"
ALLOWED_MUTATOR_CALLERS = ("glaredb_core::execution::operators::catalog::", "<glaredb_core::execution::operators::catalog::", "glaredb_core::catalog::",
                           "<glaredb_core::catalog::", "glaredb_core::engine::", "glaredb_core::storage::", "<glaredb_core::storage::", "glaredb_core::arrays::collection::")
MUTATORS = ("Schema>::create_table", "Schema>::create_view", "Catalog>::create_schema", "Catalog>::drop_entry", "StorageManager::insert_table",
            "StorageManager::drop_table", "DataTable::append_batch", "DataTable::flush", "MemorySchema::create_entry", "MemorySchema::drop_entry")


def rule_ro(facts, cg):
    r = RuleResult("C14-RO", "mutating Database::plan_* → check_can_write()? → catalog; catalog plan_* only reachable through them", floor=6)
    recs = facts.fns_matching(lambda i: i.startswith(DB + "::plan_"))
    for rec in recs:
        fn = Fn(rec)
        deleg = [c for c in fn.calls() if c.decl.startswith("glaredb_core::catalog::Catalog::plan_") or "Catalog>::plan_" in c.name]
        if not deleg:
            continue
        r.functions.add(fn.id)
        checks = [c for c in fn.calls() if c.name == DB + "::check_can_write"]
        for d in deleg:
            ok = any(fn.dominates(c.bb, d.bb) and c.bb != d.bb for c in checks)
            r.inst({"fn": fn.id, "delegates_to": d.decl.rsplit("::", 1)[-1], "check_can_write_dominates": ok}, ok)
            if not ok:
                r.violate(fn.id, "no-write-check", f"{fn.path.rsplit('::', 1)[-1]} reaches the catalog without check_can_write(): a session could create/modify objects "
                          "in a read-only database such as the shared system catalog, visible to every other session", rec["file"], d.line)
    # check_can_write body
    rec = facts.fn(DB + "::check_can_write")
    if rec is None:
        r.missing_anchor(DB + "::check_can_write")
    else:
        fn = Fn(rec)
        r.functions.add(fn.id)
        oks = [b for b, i, pl, rv, ln in fn.assigns() if rv[0] == "agg" and rv[1][0] == "adt" and rv[1][1].endswith("result::Result") and rv[1][2] == "Ok"]
        good = bool(oks)
        for b in oks:
            g = False
            for c, truth in controlling_calls(fn, b):
                if c.decl in ("std::cmp::PartialEq::ne", "std::cmp::PartialEq::eq") and "AccessMode" in str(c.callee.get("args")):
                    vs = [promoted_variant(fn.origin(a, at=c.bb)[1]) for a in c.args if fn.origin(a, at=c.bb)[0] == "const"]
                    equal = truth if c.decl.endswith("::eq") else not truth
                    if "ReadWrite" in vs and equal:
                        g = True
            good = good and g
        r.inst({"fn": fn.id, "Ok_only_when_mode_is_ReadWrite": good}, good)
        if not good:
            r.violate(fn.id, "check_can_write", "check_can_write can return Ok(()) when mode != ReadWrite", rec["file"], rec["line"])
    # bypass: catalog-level plan_* callers
    for n in cg.nodes:
        if "Catalog>::plan_" in n and "{closure" not in n:
            callers = {c for c in cg.callers(n)}
            bad = sorted(c for c in callers if not c.startswith(DB + "::plan_"))
            r.inst({"catalog_method": n.rsplit("::", 1)[-1], "callers": sorted(callers)}, not bad)
            for c in bad:
                r.violate(c, "bypass:" + n.rsplit("::", 1)[-1], f"calls the catalog's {n.rsplit('::', 1)[-1]} directly, bypassing Database::check_can_write",
                          cg.nodes.get(c, {}).get("file", ""), cg.nodes.get(c, {}).get("line", 0))
    return r


def rule_wmc(facts, cg):
    r = RuleResult("C14-WMC", "catalog/storage mutators are called only from catalog operators, bootstrap and the catalog/storage layer itself", floor=8)
    for n in sorted(cg.nodes):
        if "{closure" in n or not any(n.endswith(m) for m in MUTATORS):
            continue
        callers = sorted({(cg.nodes.get(c, {}).get("root") or c) for c in cg.callers(n)})
        bad = [c for c in callers if not c.startswith(ALLOWED_MUTATOR_CALLERS)]
        r.functions.add(n)
        r.inst({"mutator": n.replace("glaredb_core::", ""), "callers": [c.replace("glaredb_core::", "") for c in callers]}, not bad)
        for c in bad:
            r.violate(c, "mutates:" + n.rsplit("::", 1)[-1], f"{c.rsplit('::', 1)[-1]} (outside the catalog operators / bootstrap) calls the mutator {n.rsplit('::', 2)[-2]}::{n.rsplit('::', 1)[-1]}: "
                      "catalog or table contents can change before / without executing the statement's operator", cg.nodes.get(c, {}).get("file", ""), cg.nodes.get(c, {}).get("line", 0))
    return r


def rule_iso(facts):
    r = RuleResult("C14-ISO", "temp database built from fresh empty catalog/storage with ReadWrite mode; system catalog ReadOnly", floor=2)
    rec = facts.fn("glaredb_core::catalog::context::DatabaseContext::new")
    if rec is None:
        r.missing_anchor("DatabaseContext::new")
        return r
    fn = Fn(rec)
    r.functions.add(fn.id)
    found = False
    for b, i, pl, rv, ln in fn.assigns():
        if rv[0] == "agg" and rv[1][0] == "adt" and rv[1][1] == "glaredb_core::catalog::database::Database":
            found = True
            flds = rv[1][3]
            src = {}
            for name in ("catalog", "storage", "mode"):
                o = fn.origin(rv[2][flds.index(name)], through_calls=("Arc::<T>::new", "sync::Arc::<T>::new"), at=b)
                src[name] = o
            cat_ok = src["catalog"][0] == "call" and src["catalog"][1].name.endswith("MemoryCatalog::empty")
            sto_ok = src["storage"][0] == "call" and src["storage"][1].name.endswith("StorageManager::empty")
            mode = src["mode"]
            mode_name = None
            if mode[0] == "rv" and mode[1][0] == "agg":
                mode_name = mode[1][1][2]
            elif mode[0] == "const":
                mode_name = str(mode[1].get("v"))
            ok = cat_ok and sto_ok
            r.inst({"fn": fn.id, "catalog_from": src["catalog"][1].name.rsplit("::", 2)[-2:] if src["catalog"][0] == "call" else src["catalog"][0],
                    "storage_from": src["storage"][1].name.rsplit("::", 2)[-2:] if src["storage"][0] == "call" else src["storage"][0], "mode": mode_name}, ok)
            if not ok:
                r.violate(fn.id, "temp-db-not-fresh", "the per-session temp database does not get a fresh MemoryCatalog::empty()/StorageManager::empty(): "
                          "temp objects of one session would be visible to another", rec["file"], ln)
    if not found:
        r.missing_anchor("construction of the temp Database in DatabaseContext::new")
    # system catalog is read-only
    hits = 0
    for rec2 in facts.fns_matching(lambda i: i.startswith("glaredb_core::engine::") or i.startswith("glaredb_core::catalog::system::")):
        fn2 = Fn(rec2)
        for b, i, pl, rv, ln in fn2.assigns():
            if rv[0] == "agg" and rv[1][0] == "adt" and rv[1][1] == "glaredb_core::catalog::database::Database":
                flds = rv[1][3]
                o = fn2.origin(rv[2][flds.index("mode")], at=b)
                mode_name = o[1][1][2] if o[0] == "rv" and o[1][0] == "agg" else (str(o[1].get("v")) if o[0] == "const" else None)
                hits += 1
                ok = mode_name is not None and "ReadOnly" in mode_name
                r.inst({"fn": fn2.id, "system_database_mode": mode_name}, ok)
                if not ok:
                    r.violate(fn2.id, "system-db-writable", f"the shared system database is created with mode {mode_name}: sessions could modify objects every other session sees",
                              rec2["file"], ln)
    if hits == 0:
        r.missing_anchor("construction of the system Database (engine / catalog::system)")
    return r


def rule_seg(facts):
    r = RuleResult("C14-SEG", "flush publishes the segment and the row count in one critical section", floor=1)
    recs = facts.fns_matching(lambda i: i.endswith("ConcurrentColumnCollection::flush"))
    if not recs:
        r.missing_anchor("ConcurrentColumnCollection::flush")
        return r
    for rec in recs:
        fn = Fn(rec)
        r.functions.add(fn.id)
        mons = {}
        for lc in lock_calls(fn):
            from .mir import lock_class
            mons[lock_class(fn, lc)[0]] = ([], [])
        secs = M.sections_of(fn, mons)
        ok = False
        detail = []
        for sec in secs:
            fields = {(e.field, e.kind, e.method) for e in sec.events}
            pushes = any(f == "segments" and k == "call" and m in ("push", "extend", "push_back") for f, k, m in fields)
            counts = any(f == "flushed_row_count" and k == "w" for f, k, m in fields)
            detail.append({"lock_line": sec.lock.line, "pushes_segment": pushes, "updates_row_count": counts})
            ok = ok or (pushes and counts)
        r.inst({"fn": fn.id, "sections": detail}, ok)
        if not ok:
            r.violate(fn.id, "flush-not-atomic", "segments.push and flushed_row_count += n are not in the same critical section: a concurrent scan can observe "
                      "a row count that does not match the published segments", rec["file"], rec["line"])
    return r


# statement kind → the only catalog/storage effects its operator may (transitively) reach. Frozen from the pinned tree, where the
# reachable set of every operator equals this table exactly: a CREATE never removes an entry or a table's storage, an INSERT
# never touches the catalog, a DROP never creates or appends.
OP_EFFECTS = {
    "create_schema::PhysicalCreateSchema": {"Catalog>::create_schema", "MemorySchema::create_entry"},
    "create_view::PhysicalCreateView": {"Schema>::create_view", "MemorySchema::create_entry"},
    "create_table::PhysicalCreateTable": {"Schema>::create_table", "StorageManager::insert_table", "MemorySchema::create_entry"},
    "create_table_as::PhysicalCreateTableAs": {"Schema>::create_table", "StorageManager::insert_table", "MemorySchema::create_entry",
                                               "DataTable::append_batch", "DataTable::flush"},
    "insert::PhysicalInsert": {"DataTable::append_batch", "DataTable::flush"},
    "drop::PhysicalDrop": {"Catalog>::drop_entry", "MemorySchema::drop_entry", "StorageManager::drop_table"},
}


def rule_effect(facts, cg):
    r = RuleResult("C14-EFFECT", "each catalog operator reaches (transitively, over the call graph) only the catalog/storage mutators of its "
                   "own statement kind", floor=6)
    prefix = "glaredb_core::execution::operators::catalog::"
    import re
    seen_ops = set()
    for n in cg.nodes:
        seen_ops.update(re.findall(r"operators::catalog::(\w+::Physical\w+)", n))
    for op in sorted(seen_ops - set(OP_EFFECTS)):
        roots = [n for n in cg.nodes if prefix + op in n]
        reach = cg.reachable(roots)
        ms = sorted({m for n in reach for m in MUTATORS if n.endswith(m)})
        r.inst({"operator": op, "effects": ms, "allowed": "none (not a mutating statement kind)"}, not ms)
        for m in ms:
            r.violate(prefix + op, "effect:" + m.rsplit("::", 1)[-1], f"operator {op} is not in the statement-kind table but reaches the mutator {m}; "
                      "a non-mutating statement would change the catalog or table contents", "", 0)
    for op, allowed in OP_EFFECTS.items():
        roots = [n for n in cg.nodes if prefix + op in n]
        if not roots:
            r.missing_anchor(op)
            continue
        r.functions.update(roots)
        # reach with parents, to name the path
        parent = {x: None for x in roots}
        st = list(roots)
        while st:
            x = st.pop()
            for y in cg.edges.get(x, ()):
                if y not in parent:
                    parent[y] = x
                    st.append(y)
        ms = {}
        for n in parent:
            for m in MUTATORS:
                if n.endswith(m):
                    ms.setdefault(m, n)
        bad = sorted(set(ms) - allowed)
        r.inst({"operator": op, "effects": sorted(ms), "allowed": sorted(allowed)}, not bad)
        for m in bad:
            path, x = [], ms[m]
            while x is not None:
                path.append(x.replace("glaredb_core::", ""))
                x = parent[x]
            root = path[-1]
            r.violate(prefix + op, "effect:" + m.rsplit("::", 1)[-1],
                      f"{op} reaches {m} (path: {' <- '.join(path[:6])}): a statement of this kind would remove/alter objects or rows it "
                      "does not name", cg.nodes.get(roots[0], {}).get("file", ""), cg.nodes.get(roots[0], {}).get("line", 0))
    return r


def run(ctx):
    facts = ctx["facts"]
    cg = CallGraph(facts)
    return [rule_ro(facts, cg), rule_wmc(facts, cg), rule_effect(facts, cg), rule_iso(facts), rule_seg(facts), rule_cursor(facts, "C14-CURSOR", ["glaredb_core"], 1), rule_rowcount(facts), rule_ctascreate(facts), rule_insertcols(facts), rule_ctasexists(facts), rule_replace(facts), rule_droptype(facts), rule_dupcol(facts), rule_dropschema(facts), rule_snapshot(facts)]



def rule_cursor(facts, rule, crates, floor):
    """see rules/cursor.py"""
    from .cursor import cursor_sites
    r = RuleResult(rule, "a loop that decrements its remaining-count by the amount it hands to a copy/read call advances the offset argument of that "
                   "call by the same amount (no slice of the input is processed twice, none is skipped)", floor=floor)
    for s_ in cursor_sites(facts, crates):
        r.functions.add(s_["fn"])
        r.call_sites += 1
        r.inst({k: v for k, v in s_.items() if k != "file"}, s_["advanced"])
        if not s_["advanced"]:
            r.violate(s_["fn"], f"cursor-not-advanced:{s_['callee']}:{s_['offset_param']}",
                      f"the loop subtracts `{s_['amount']}` from `{s_['remaining']}` and passes it to `{s_['callee']}` (line {s_['line']}), but the `{s_['offset_param']}` "
                      f"argument of that call is never advanced by `{s_['amount']}` inside the loop: every further iteration handles the same slice again "
                      "(rows duplicated, the tail lost, counts unchanged)", s_["file"], s_["line"])
    return r

def rule_rowcount(facts):
    """INSERT / CREATE TABLE AS report a row count. It is the number of rows handed to the table: every append of a batch is paired, on
    every successful path, with adding that same batch's num_rows() to the partition's counter, and the value written to the result
    is that counter."""
    from .c10carry import _self_field
    r = RuleResult("C14-ROWCOUNT", "every DataTable::append_batch in the catalog operators is paired with `count += <same batch>.num_rows()`, and the reported "
                   "value is that counter", floor=2)
    CAT = "glaredb_core::execution::operators::catalog::"
    for rec in facts.fns_matching(lambda i: CAT in i and "::tests::" not in i):
        if "append_batch" not in str(rec["bbs"]):
            continue
        fn = Fn(rec)
        appends = [c for c in fn.calls() if c.name.endswith("::append_batch") and "storage::datatable" in c.name]
        if not appends:
            continue
        r.functions.add(fn.id)
        errs = [c.bb for c in fn.calls() if c.name.endswith("from_residual")]
        for c in appends:
            r.call_sites += 1
            batch = None
            for a in c.args:
                if a[0] in ("c", "m"):
                    o = fn.origin(a, at=c.bb)
                    if o[0] == "arg" and "arrays::batch::Batch" in fn.locals[o[1]]:
                        batch = o[1]
            # counter updates: assignment to a field of a state parameter whose value derives from num_rows(batch) and from the field itself
            updates = []
            for b, i, pl, rv, ln in fn.assigns():
                flds = [p[1] for p in pl[1] if isinstance(p, list) and p[0] == "f"]
                if not flds or "count" not in flds[-1]:
                    continue
                seen, st, from_rows = set(), [rv], False
                while st:
                    x = st.pop()
                    for l in __import__("rules.mir", fromlist=["operand_locals"]).operand_locals(x, set()):
                        if l in seen:
                            continue
                        seen.add(l)
                        for d in fn.defs.get(l, []):
                            if d[0] in ("a", "pa"):
                                st.append(d[3])
                            else:
                                cc = d[2]
                                if cc.name.endswith("Batch::num_rows") and cc.args and fn.origin(cc.args[0], at=cc.bb)[0:2] == ("arg", batch):
                                    from_rows = True
                                st.append(cc.args)
                if from_rows:
                    updates.append(b)
            ok = False
            for ub in updates:
                if fn.dominates(ub, c.bb):
                    ok = True
                elif fn.dominates(c.bb, ub):
                    after = fn.reachable_from(c.target, avoid=[ub] + errs) if c.target is not None else set()
                    ok = ok or not any(e in after for e in fn.exits)
            # reported value
            reported = False
            root_rec = rec
            for x in fn.calls():
                if x.name.endswith("Array::set_value") and len(x.args) >= 3:
                    seen, st = set(), [x.args[2]]
                    while st:
                        y = st.pop()
                        if "count" in str(y):
                            reported = True
                        for l in __import__("rules.mir", fromlist=["operand_locals"]).operand_locals(y, set()):
                            if l in seen:
                                continue
                            seen.add(l)
                            for d in fn.defs.get(l, []):
                                st.append(d[3] if d[0] in ("a", "pa") else d[2].args)
            r.inst({"fn": fn.id, "append_line": c.line, "batch_param": fn.local_name(batch) if batch else None, "counter_updates": len(updates),
                    "paired": ok, "reports_counter": reported}, ok and reported)
            if not ok:
                r.violate(fn.id, "append-without-count", f"the batch appended at line {c.line} is not paired on every successful path with `count += batch.num_rows()`: "
                          "the row count reported by INSERT / CREATE TABLE AS differs from the rows stored", rec["file"], c.line)
            elif not reported:
                r.violate(fn.id, "count-not-reported", "the value written to the result batch does not derive from the partition's row counter", rec["file"], c.line)
    return r


def rule_ctascreate(facts):
    """CREATE TABLE AS creates its table lazily, inside the operator that receives the query's batches. Whether the table comes to exist
    must not depend on the data: a path that leaves the creating function without having reached the creation, decided by the input
    batch (e.g. 'skip empty batches'), makes a successful CTAS over an empty result create nothing."""
    from .c04 import _arg_roots
    r = RuleResult("C14-CTASCREATE", "in the CREATE TABLE AS operator, no branch on the input batch decides whether the catalog entry / storage creation is reached", floor=1)
    CAT = "glaredb_core::execution::operators::catalog::create_table_as::"
    found = 0
    for rec in facts.fns_matching(lambda i: CAT in i and "::tests::" not in i):
        if "create_table" not in str(rec["bbs"]):
            continue
        fn = Fn(rec)
        creates = [c for c in fn.calls() if c.name.endswith("::create_table") or c.name.endswith("::insert_table")]
        if not creates:
            continue
        found += 1
        r.functions.add(fn.id)
        data = {l for l in range(1, fn.argc + 1) if "arrays::batch::Batch" in fn.locals[l]}
        errs = {c.bb for c in fn.calls() if c.name.endswith("from_residual")}
        for c in creates:
            can, st = set(), [c.bb]
            while st:
                x = st.pop()
                if x not in can:
                    can.add(x)
                    st.extend(fn.pred[x])
            before = fn.reachable_from(0, avoid=[c.bb])
            bad = []
            for u in sorted(can):
                if u == c.bb or u not in before:
                    continue
                t = fn.term(u)
                if t[0] != "switch":
                    continue
                for v in fn.succ[u]:
                    if v in can:
                        continue
                    if not any(e in fn.reachable_from(v, avoid=list(errs)) for e in fn.exits):
                        continue
                    roots = {x for x, _o in _arg_roots(fn, t[1], u)}
                    if roots & data:
                        bad.append(t[5] if len(t) > 5 else rec["line"])
            r.call_sites += 1
            r.inst({"fn": fn.id, "create_call": c.name.rsplit("::", 1)[-1], "line": c.line, "skipped_by_data_dependent_branch": bool(bad)}, not bad)
            for ln in sorted(set(bad)):
                r.violate(fn.id, f"create-skipped-by-data:{c.name.rsplit('::', 1)[-1]}", f"a branch on the input batch at line {ln} returns without reaching `{c.name.rsplit('::', 1)[-1]}` "
                          f"(line {c.line}): when every batch takes that branch (an empty result) the statement succeeds but the table is never created", rec["file"], ln)
    if not found:
        r.missing_anchor("the catalog/storage creation call in the CREATE TABLE AS operator")
    return r


def rule_insertcols(facts):
    """see rules/astclause.py"""
    from .astclause import clause_sites
    r = RuleResult("C14-INSERTCOLS", "the INSERT binder consults the statement's column list wherever it builds the bound insert (mapped or refused, never dropped)", floor=1)
    for fn, rec, ln, guarded in clause_sites(facts, lambda i: "bind_insert::InsertBinder" in i, "BoundInsert", "columns", "ast::Insert"):
        r.functions.add(fn.id)
        r.inst({"fn": fn.id, "line": ln, "column_list_consulted": guarded}, guarded)
        if not guarded:
            r.violate(fn.id, "insert-column-list-dropped", f"the bound INSERT is built at line {ln} without any branch on the statement's column list: `INSERT INTO t (b, a) VALUES (1, 2)` "
                      "stores a=1, b=2", rec["file"], ln)
    return r


CLAIM = {
    "text": "Call-graph who-may-call rules plus MIR must-pass-through/provenance rules decide, for every code path, that write access is gated "
            "(check_can_write before each mutating catalog entry, not bypassable), that catalog/storage mutators are only reachable from the "
            "catalog operators and bootstrap, that temp catalogs are fresh per session and the system catalog read-only, and that segment "
            "publication is atomic, and that each catalog operator transitively reaches only the mutators of its own statement kind (a CREATE "
            "never drops, an INSERT never touches the catalog). These are isolation-by-construction facts; the sequential meaning of "
            "statement histories is not decided. Plus the chunked-append cursor pairing in the column collection: a loop that subtracts the amount it hands to a copy routine from its remaining count advances the source offset by the same amount (no row stored twice, none lost). Plus: every DataTable::append_batch in INSERT / CREATE TABLE AS is paired with `count += <same batch>.num_rows()` and the reported value is that counter. And: in the CREATE TABLE AS operator no branch on the input batch decides whether the table creation is reached."
            " Plus INSERTCOLS: the INSERT column list is mapped or refused, never dropped."
            " Plus CTASEXISTS: CREATE TABLE IF NOT EXISTS AS learns whether the table existed and appends only behind a flag recording it."
            " Plus REPLACE: the schema-level create_entry drops the existing entry before creating the replacement."
            " Plus DROPTYPE: DROP TABLE / DROP VIEW remove an entry only after looking at its type."
            " Plus DUPCOL: the CREATE TABLE binder compares declared column names with each other."
            " Plus DROPSCHEMA: a schema leaves the catalog only after its table map has been inspected."
            " Plus SNAPSHOT: table scans are bounded by the flushed-segment count observed when their scan state was created (a statement does not scan its own inserts).",
    "note": "trusted: rustc MIR; class-hierarchy call graph; allow-list of mutator callers in rules/c14.py",
    "technique": "static analysis: who-may-call (call graph) + MIR must-pass-through / provenance (rustc_private driver)",
}


def rule_ctasexists(facts):
    """CREATE TABLE IF NOT EXISTS ... AS SELECT on an existing table is a no-op: the catalog's create_table hands back the existing entry
    and nothing may be appended or counted. Decided on PhysicalCreateTableAs::poll_execute: (1) the operator learns whether the table was
    really created - it looks at the entry create_table returned or asks the catalog beforehand; (2) the append is dominated by a
    branch on a partition-state flag (other than `finished`) that this function assigns."""
    r = RuleResult("C14-CTASEXISTS", "CREATE TABLE AS learns whether the table already existed and appends only behind a flag that records it", floor=1)
    recs = facts.fns_matching(lambda i: "create_table_as::PhysicalCreateTableAs" in i and i.endswith("::poll_execute"))
    if not recs:
        r.missing_anchor("PhysicalCreateTableAs::poll_execute")
        return r
    rec = recs[0]
    fn = Fn(rec)
    r.functions.add(fn.id)
    appends = [c for c in fn.calls() if c.name.endswith("DataTable::append_batch")]
    creates = [c for c in fn.calls() if c.name.endswith("Schema>::create_table") or c.name.endswith("Schema::create_table")]
    if not appends or not creates:
        r.missing_anchor("append_batch / create_table call in PhysicalCreateTableAs::poll_execute")
        return r
    learns = [c.name.rsplit("::", 1)[-1] for c in fn.calls()
              if c.name.rsplit("::", 1)[-1] in ("get_table_or_view", "try_as_table_entry", "entry_type", "require_get_table")]
    written = set()
    for b, i, pl, rv, ln in fn.assigns():
        for p_ in (pl[1] if isinstance(pl, list) and len(pl) > 1 else []):
            if isinstance(p_, list) and p_[0] == "f" and p_[2].endswith("CreateTableAsPartitionState"):
                written.add(p_[1])
    flags = []
    for b in range(fn.n):
        t = fn.term(b)
        if t[0] != "switch" or not all(fn.dominates(b, a.bb) and b != a.bb for a in appends):
            continue
        o = fn.origin(t[1], at=b)
        if o[0] == "arg" and len(o) > 2:
            for p_ in o[2]:
                if isinstance(p_, list) and p_[0] == "f" and p_[2].endswith("CreateTableAsPartitionState") and p_[1] != "finished" and p_[1] in written:
                    flags.append(p_[1])
    ok = bool(learns) and bool(flags)
    r.call_sites += len(appends)
    r.inst({"fn": fn.id, "learns_existence_by": sorted(set(learns)), "append_guard_flags": sorted(set(flags))}, ok)
    if not ok:
        r.violate(fn.id, "appends-to-orphan-table", "CREATE TABLE IF NOT EXISTS ... AS SELECT: the operator " +
                  ("never looks at what create_table returned nor asks the catalog" if not learns else "does not guard the append with a flag it sets") +
                  ": on an existing table the rows are appended to a table nobody can see and reported as inserted", rec["file"], appends[0].line)
    return r


def rule_replace(facts):
    """CREATE OR REPLACE has to end with the new entry in place of the old one. The catalog map refuses to create an entry under an
    existing name, so the schema-level create_entry has to drop the existing entry on the Replace path: it calls CatalogMap::drop_entry
    and that call can reach the CatalogMap::create_entry call (pre-fix: `OR REPLACE` failed with "Duplicate entry name" and the only
    way to replace a view was DROP TABLE on it)."""
    r = RuleResult("C14-REPLACE", "the schema's create_entry drops an existing entry before it creates the replacement (OnConflict::Replace)", floor=1)
    recs = [x for x in facts.fns_matching(lambda i: i.endswith("MemorySchema::create_entry"))]
    if not recs:
        r.missing_anchor("catalog::memory::MemorySchema::create_entry")
        return r
    rec = recs[0]
    fn = Fn(rec)
    r.functions.add(fn.id)
    reads_conflict = "OnConflict" in str(rec.get("locals"))
    drops = [c for c in fn.calls() if c.name.endswith("CatalogMap::drop_entry")]
    creates = [c for c in fn.calls() if c.name.endswith("CatalogMap::create_entry")]
    if not creates or not reads_conflict:
        r.missing_anchor("MemorySchema::create_entry: no CatalogMap::create_entry call / no OnConflict dispatch")
        return r
    ok = any(any(cr.bb in fn.reachable_from(d.bb) for cr in creates) for d in drops)
    r.inst({"fn": fn.id, "drop_calls": len(drops), "create_calls": len(creates), "drop_reaches_create": ok}, ok)
    if not ok:
        r.violate(fn.id, "replace-without-drop", "create_entry never drops the existing entry: CREATE OR REPLACE on an existing name fails with a duplicate-entry "
                  "error instead of replacing it", rec["file"], creates[0].line)
    return r


def rule_droptype(facts):
    """Tables and views live in one map. DROP TABLE x has to remove a table: the removal from the map is dominated by a look at the
    entry's type (`DROP TABLE v` silently dropped the view v)."""
    r = RuleResult("C14-DROPTYPE", "the schema removes an entry for DROP TABLE / DROP VIEW only after looking at the entry's type", floor=1)
    recs = facts.fns_matching(lambda i: i.endswith("MemorySchema::drop_entry_inner"))
    if not recs:
        r.missing_anchor("catalog::memory::MemorySchema::drop_entry_inner")
        return r
    rec = recs[0]
    fn = Fn(rec)
    r.functions.add(fn.id)
    drops = [c for c in fn.calls() if c.name.endswith("CatalogMap::drop_entry")]
    types = [c for c in fn.calls() if c.name.endswith("CatalogEntry::entry_type") or c.name.endswith("try_as_table_entry") or c.name.endswith("try_as_view_entry")]
    if not drops:
        r.missing_anchor("drop_entry_inner: no CatalogMap::drop_entry call")
        return r
    for d in drops:
        ok = any(fn.dominates(t.bb, d.bb) for t in types)
        r.call_sites += 1
        r.inst({"fn": fn.id, "type_checks": len(types), "dominates_removal": ok}, ok)
        if not ok:
            r.violate(fn.id, "drop-ignores-entry-type", "the entry is removed without a look at its type: DROP TABLE on a view's name drops the view", rec["file"], d.line)
    return r


def rule_dupcol(facts):
    """A table's column names are unique (ignoring case, which is how unquoted references resolve). `CREATE TABLE t (a int, a int)`
    used to succeed and every later reference to `a` was ambiguous. Decided: the CREATE TABLE binder (or one of its closures) compares
    column names with each other before the bound statement is built: a name-equality / set-membership call whose operand comes from a
    `Field`'s name."""
    r = RuleResult("C14-DUPCOL", "the CREATE TABLE binder compares the column names with each other (duplicates are refused)", floor=1)
    recs = facts.fns_matching(lambda i: "bind_create_table" in i and ("::bind_create_table" in i))
    root = [x for x in recs if x["id"].endswith("::bind_create_table")]
    if not root:
        r.missing_anchor("bind_create_table")
        return r
    EQ = ("eq_ignore_ascii_case", "eq", "ne", "insert", "contains", "contains_key")
    found = []
    for rec in recs:
        fn = Fn(rec)
        for c in fn.calls():
            last = c.name.rsplit("::", 1)[-1]
            if last not in EQ:
                continue
            if last in ("insert", "contains", "contains_key") and "Set" not in c.name and "Map" not in c.name:
                continue
            txt = str([fn.origin(a, at=c.bb, through_calls=("::deref", "::as_str", "::as_ref", "::borrow")) for a in c.args if a[0] in ("c", "m")])
            if "'name'" in txt and "Field" in txt:
                found.append((rec["id"], c.line, last))
    r.functions.add(root[0]["id"])
    ok = bool(found)
    r.inst({"fn": root[0]["id"], "name_comparisons": [f"{l}:{k}" for _i, l, k in found]}, ok)
    if not ok:
        r.violate(root[0]["id"], "duplicate-columns-accepted", "no comparison between the names of the declared columns: CREATE TABLE t (a int, a int) is accepted and "
                  "`a` can never be referenced", root[0]["file"], root[0]["line"])
    return r


def rule_dropschema(facts):
    """DROP SCHEMA without CASCADE must not take the schema's tables with it (CASCADE itself is refused as unsupported). Decided on the
    catalog's drop_entry: every path to the removal of the schema from the schema map passes an inspection of the schema's own table
    map - except the paths on which the lookup found no such schema (the None edge of the looked-up Option). In particular IF EXISTS
    does not open a way around the inspection."""
    from .mir import disc_switches
    r = RuleResult("C14-DROPSCHEMA", "a schema is removed from the catalog only after its table map has been inspected", floor=1)
    recs = facts.fns_matching(lambda i: "catalog::memory::MemoryCatalog" in i and i.endswith("::drop_entry"))
    if not recs:
        r.missing_anchor("MemoryCatalog::drop_entry")
        return r
    rec = recs[0]
    fn = Fn(rec)
    r.functions.add(fn.id)
    removes = [c for c in fn.calls() if c.name.rsplit("::", 1)[-1] == "remove" and "HashIndex" in c.name]
    looks = [c for c in fn.calls() if "CatalogMap::" in c.name and c.name.rsplit("::", 1)[-1] in ("for_each_entry", "is_empty", "len", "get_entry")]
    if not removes:
        r.missing_anchor("MemoryCatalog::drop_entry: schema map removal not found")
        return r
    # None edges of switches on the looked-up schema Option
    none_edges = []
    for b, place, t in disc_switches(fn):
        o = fn.origin(["c", [place[0], []]], at=b, through_calls=("::as_ref", "::deref"))
        if o[0] == "call" and o[1].name.rsplit("::", 1)[-1] in ("map", "get", "peek", "cloned") and ("Option" in o[1].name or "HashIndex" in o[1].name):
            listed = dict((v, tgt) for v, tgt in t[2])
            # `match`: None is discriminant 0; `if let Some(..)`: only 1 is listed and None is the otherwise edge
            none_edges.append((b, listed[0] if 0 in listed else t[3]))
    for rm in removes:
        reach = fn.reach(0, avoid_blocks=[l.bb for l in looks], avoid_edges=none_edges, threaded=False)
        ok = bool(looks) and rm.bb not in reach
        r.call_sites += 1
        r.inst({"fn": fn.id, "content_inspections": len(looks), "absent_schema_edges": len(none_edges), "removal_only_after_inspection": ok}, ok)
        if not ok:
            r.violate(fn.id, "schema-dropped-with-contents", "a path on which the schema exists reaches its removal without looking at what it contains: DROP SCHEMA "
                      "(no CASCADE) silently drops its tables", rec["file"], rm.line)
    return r


def rule_snapshot(facts):
    """A statement reads a table as of its start: INSERT INTO t SELECT .. FROM t must not scan the rows it is inserting (it returned a
    nondeterministic multiple of the rows, or never returned: the scan chased its own flushes). The collection is deliberately
    scannable while it is appended to (materializations stream through it), so the bound has to come with the *table's* scan state:
    (a) DataTable::init_parallel_scan_states reaches (depth 3) a read of the flushed-segment count, and (b) scan_inner order-compares a
    cursor field of the scan state that it advances with a field of the scan state that it never writes (a bound fixed at creation)."""
    r = RuleResult("C14-SNAPSHOT", "table scans are bounded by the segment count observed when their scan state was created", floor=2)
    CC = "glaredb_core::arrays::collection::concurrent::"
    root = facts.fn("glaredb_core::storage::datatable::DataTable::init_parallel_scan_states")
    si = facts.fn(CC + "ConcurrentColumnCollection::scan_inner")
    if root is None or si is None:
        r.missing_anchor("DataTable::init_parallel_scan_states / ConcurrentColumnCollection::scan_inner")
        return r

    def reads_count(rec, depth=0, seen=None):
        seen = seen if seen is not None else set()
        if rec["id"] in seen or depth > 3:
            return False
        seen.add(rec["id"])
        fn = Fn(rec)
        for c in fn.calls():
            if c.name.endswith("Vec::<T, A>::len") and c.args and "'segments'" in str(fn.origin(c.args[0], at=c.bb)):
                return True
        for c in fn.calls():
            if c.name.startswith(("glaredb_core::arrays::collection::", "glaredb_core::storage::datatable::")):
                sub = facts.fn(c.name)
                if sub is not None and reads_count(sub, depth + 1, seen):
                    return True
        return False
    ok_a = reads_count(root)
    r.functions.add(root["id"])
    r.inst({"fn": root["id"], "reads_flushed_segment_count": ok_a}, ok_a)
    if not ok_a:
        r.violate(root["id"], "scan-state-without-snapshot", "the table's scan states are created without looking at how many segments are flushed: a scan running "
                  "in the same statement as an append to the table also returns the appended rows (INSERT INTO t SELECT .. FROM t)", root["file"], root["line"])
    fn = Fn(si)
    r.functions.add(fn.id)
    written = set()
    for b, i, pl, rv, ln in fn.assigns():
        for p_ in (pl[1] if len(pl) > 1 else []):
            if isinstance(p_, list) and p_[0] == "f" and p_[2].endswith("ColumnCollectionScanState"):
                written.add(p_[1])

    def state_field(op, b):
        if op[0] not in ("c", "m"):
            return None
        o = fn.origin(op, at=b)
        if o[0] == "arg" and len(o) > 2:
            for p_ in o[2]:
                if isinstance(p_, list) and p_[0] == "f" and p_[2].endswith("ColumnCollectionScanState"):
                    return p_[1]
        return None
    bounds = []
    for b, i, pl, rv, ln in fn.assigns():
        if rv[0] == "bin" and rv[1] in ("Lt", "Le", "Gt", "Ge"):
            fa, fb = state_field(rv[2], b), state_field(rv[3], b)
            if fa and fb and ((fa in written) != (fb in written)):
                bounds.append((fa, fb))
    ok_b = bool(bounds)
    r.inst({"fn": fn.id, "cursor_vs_fixed_bound": [list(x) for x in bounds], "fields_advanced": sorted(written)}, ok_b)
    if not ok_b:
        r.violate(fn.id, "scan-unbounded", "scan_inner never compares its segment cursor with a bound fixed when the scan state was created: it follows every segment "
                  "flushed while it runs", si["file"], si["line"])
    return r
