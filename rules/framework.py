"""Rule/result/evidence framework shared by all property checks."""
import json, os, time

VERIF = os.path.dirname(os.path.dirname(os.path.abspath(__file__)))


class Violation:
    def __init__(self, rule, fn, construct, what, file="", line=0, detail=None, ordinal=0):
        self.rule = rule
        self.fn = fn
        self.construct = construct
        self.what = what
        self.file = file
        self.line = line
        self.detail = detail or {}
        self.ordinal = ordinal

    @property
    def key(self):
        # no line numbers in keys: a finding keeps its identity when code above it moves
        k = f"{self.rule}|{self.fn}|{self.construct}"
        if self.ordinal:
            k += f"|#{self.ordinal}"
        return k

    def to_json(self):
        return {"key": self.key, "rule": self.rule, "function": self.fn, "construct": self.construct,
                "what": self.what, "file": self.file, "line": self.line, "detail": self.detail}


class RuleResult:
    """One rule evaluated on the current tree."""

    def __init__(self, rule, clause, floor=1):
        self.rule = rule
        self.clause = clause          # what is decided, in words
        self.floor = floor            # minimal number of instances confirmed by hand on the pinned tree
        self.instances = []           # every obligation instance (short strings / dicts)
        self.discharged = 0
        self.violations = []
        self.exemptions = []          # (symbol, reason)
        self.functions = set()
        self.call_sites = 0
        self.notes = []

    def inst(self, desc, ok=True):
        self.instances.append(desc)
        if ok:
            self.discharged += 1

    def violate(self, fn, construct, what, file="", line=0, detail=None):
        n = sum(1 for v in self.violations if v.fn == fn and v.construct == construct)
        v = Violation(self.rule, fn, construct, what, file, line, detail, ordinal=n)
        self.violations.append(v)
        return v

    def exempt(self, symbol, reason):
        self.exemptions.append((symbol, reason))

    def missing_anchor(self, what):
        """Fail closed: an anchor the rule needs is gone (renamed / deleted / restructured)."""
        self.violate("<anchor>", what, f"rule anchor not found: {what} (the rule cannot decide its clause; failing closed)")


def load_known():
    p = os.path.join(VERIF, "known_findings.jsonl")
    known, fixed = {}, []
    if os.path.exists(p):
        for l in open(p):
            l = l.strip()
            if not l or l.startswith("#"):
                continue
            r = json.loads(l)
            if r.get("status") == "fixed":
                fixed.append(r)
            else:
                known[(r["property"], r["key"])] = r
    return known, fixed


def finish(prop, tier, seed, results, t0, facts_info, explanation, not_decided, extra=None, selftest=None):
    """Print the verdict, write evidence + replay files, return the exit code."""
    known, fixed = load_known()
    new, kn = [], []
    vac = []
    for r in results:
        if len(r.instances) < r.floor and not any(v.fn == "<anchor>" for v in r.violations):
            r.violate("<anchor>", "instance-floor",
                      f"rule {r.rule} matched {len(r.instances)} instances, fewer than the floor {r.floor} "
                      f"confirmed on the pinned tree (anchor renamed or removed; failing closed)")
            vac.append(r.rule)
        for v in r.violations:
            if (prop, v.key) in known:
                kn.append((v, known[(prop, v.key)]))
            else:
                new.append(v)
    replay_dir = os.path.join(os.environ.get("VERIF_REPLAY_DIR") or os.path.join(VERIF, "replay"), prop)
    os.makedirs(replay_dir, exist_ok=True)
    for f in os.listdir(replay_dir):
        os.unlink(os.path.join(replay_dir, f))
    print(f"== {prop} ({tier}) ==")
    for r in results:
        st = "ok" if not r.violations else f"{len(r.violations)} finding(s)"
        print(f"  rule {r.rule}: {len(r.instances)} instances (floor {r.floor}), {r.discharged} discharged, "
              f"{len(r.functions)} functions, {r.call_sites} call sites, {len(r.exemptions)} exemptions — {st}")
        for n in r.notes:
            print(f"     note: {n}")
    for v, k in kn:
        print(f"KNOWN-FINDING: property={prop} {v.key} — {k.get('what', v.what)}")
    code = 0
    for i, v in enumerate(new):
        p = os.path.join(replay_dir, f"{i}.json")
        json.dump({"property": prop, **v.to_json()}, open(p, "w"), indent=1)
        print(f"  {v.file}:{v.line}: [{v.rule}] {v.fn}: {v.what}")
        print(f"VIOLATION property={prop} replay={p}")
        code = 1
    if selftest and selftest.get("broken"):
        for b in selftest["broken"]:
            print(f"CHECK-BROKEN: self-test: {b}")
        code = code or 2
    obligations = sum(len(r.instances) for r in results)
    discharged = sum(r.discharged for r in results)
    samples = []
    for r in results:
        for x in r.instances[: 4 if tier == "quick" else 12]:
            samples.append({"rule": r.rule, "instance": x})
    ev = {
        "property_id": prop,
        "tier": tier,
        "seed": seed,
        "level": "other",
        "coverage": {
            "explanation": explanation,
            "not_decided": not_decided,
            "obligations": obligations,
            "discharged": discharged,
            "evaluations": obligations,
            "distinct_nontrivial": len({json.dumps(x, sort_keys=True) for r in results for x in r.instances}),
            "rule": "every instance of each rule template in the analysed crates is enumerated from the "
                    "resolved program (MIR/HIR facts); an instance is a distinct (rule, function, construct) obligation",
            "exhaustive": True,
            "functions_analysed": sum(len(r.functions) for r in results),
            "call_sites": sum(r.call_sites for r in results),
            "rules": [{"rule": r.rule, "clause": r.clause, "instances": len(r.instances), "floor": r.floor,
                       "discharged": r.discharged, "violations": len(r.violations),
                       "exemptions": [{"symbol": a, "reason": b} for a, b in r.exemptions],
                       "notes": r.notes} for r in results],
            "samples": samples,
            "known_findings": [v.key for v, _ in kn],
            "new_violations": [v.to_json() for v in new],
            "fixed_findings_recorded": [f for f in fixed if f.get("property") == prop],
            "checker_cmd": f"./check {prop} --tier {tier}",
            "trusted_base": ["rustc nightly MIR/HIR construction and trait resolution (gdbfacts driver reads optimized_mir at mir-opt-level=0)",
                             "the frozen rule tables under /verif/tables and in /verif/rules (each exemption carries its reason)",
                             "class-hierarchy treatment of dyn/generic calls"],
            "facts": facts_info,
        },
        "assumptions": ["the clause decided is a necessary structural condition of the property; the behaviour itself (values computed at run time) is not decided",
                        "code under #[cfg(test)] is not part of the analysed program (cargo check, non-test profile)"],
        "wall_s": round(time.time() - t0, 2),
        "violations": len(new),
    }
    if extra:
        ev["coverage"].update(extra)
    if selftest:
        ev["coverage"]["selftest"] = selftest
    evdir = os.environ.get("VERIF_EVIDENCE_DIR") or os.path.join(VERIF, "evidence")
    os.makedirs(evdir, exist_ok=True)
    json.dump(ev, open(os.path.join(evdir, f"{prop}.json"), "w"), indent=1)
    print(f"  evidence: obligations={obligations} discharged={discharged} known={len(kn)} new={len(new)} wall={ev['wall_s']}s")
    return code
