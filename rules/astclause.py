"""Parsed-but-dropped clauses. A clause the parser accepts into the AST (aggregate FILTER, INSERT column list) that the binder
neither implements nor rejects is silently ignored: the statement runs and returns the answer of a *different* statement. Decided
per (binder function, bound node, AST field): every construction of the bound node in that function is dominated by a branch whose
condition is computed from that AST field (it is either translated or refused)."""
from .mir import Fn, operand_locals


def _derives_from_field(fn, op, at, field, adt_sub, depth=12):
    seen = set()
    st = [(op, at)]
    while st and depth > 0:
        depth -= 1
        x, b = st.pop()
        txt = str(x)
        if f"'f', '{field}'" in txt and adt_sub in txt:
            return True
        for l in operand_locals(x, set()):
            if l in seen:
                continue
            seen.add(l)
            for d in fn.defs.get(l, []):
                if d[0] in ("a", "pa"):
                    st.append((d[3], d[1]))
                else:
                    st.append((d[2].args, d[1]))
        depth += 0
    return False


def clause_sites(facts, fn_pred, built_adt_suffix, field, ast_adt_sub):
    """[(fn, line, guarded)] for every construction of `built_adt_suffix` in the matching functions"""
    out = []
    for rec in facts.fns_matching(fn_pred):
        if built_adt_suffix not in str(rec["bbs"]):
            continue
        fn = Fn(rec)
        guards = []
        for b in range(fn.n):
            t = fn.term(b)
            if t[0] != "switch":
                continue
            ok = _derives_from_field(fn, t[1], b, field, ast_adt_sub)
            if not ok:
                for s_ in fn.bbs[b]["s"]:
                    if s_[0] == "a" and s_[2][0] == "disc" and _derives_from_field(fn, s_[2][1:], b, field, ast_adt_sub):
                        ok = True
            if ok:
                guards.append(b)
        for b, i, pl, rv, ln in fn.assigns():
            if rv[0] == "agg" and rv[1][0] == "adt" and rv[1][1].endswith(built_adt_suffix):
                guarded = any(fn.dominates(g, b) and g != b for g in guards)
                out.append((fn, rec, ln, guarded))
    return out
