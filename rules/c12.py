"""C12 — integer/decimal arithmetic is exact or fails: never wraps, never crashes (failure-mode clause).
  C12-RAW  in every kernel body (code under glaredb_core::functions::) reached by the instantiation walk
           from a registry row of an arithmetic function (+ - * / %, negate, numeric::*, sum, avg) whose
           signature has an integer or decimal argument/result: no raw integer arithmetic on SQL values —
           `<int as Add/Sub/Mul/Div/Rem/Neg/*Assign>`, overflow-asserted BinOps, wrapping_/overflowing_,
           raw pow/abs, and checked_* whose None is discarded (unwrap_or_default/unwrap_or/unwrap/expect).
  The rule decides the failure mode only; that a checked result is the right number is not decided."""
import re
from .framework import RuleResult
from .instwalk import InstDB, signature_of
from .mir import Fn, disc_switches, switch_edges

EXPLANATION = ("Instantiation walk from every arithmetic registry row with an integer/decimal signature; in the monomorphic kernel bodies "
               "(generic MIR re-read under the row's substitution, callees re-resolved) every integer operation on SQL values is classified. "
               "A raw operator panics in debug builds (aborting the process through the rayon worker) and wraps in release builds; a "
               "discarded checked_* silently yields a wrong value. Decides the failure-mode clause only, not exactness of results.")
NOT_DECIDED = ["that a checked result is the mathematically right number", "decimal rounding / rescaling", "float arithmetic"]

INT_IDS = {"Int8", "Int16", "Int32", "Int64", "Int128", "UInt8", "UInt16", "UInt32", "UInt64", "UInt128", "Decimal64", "Decimal128"}
SQL_INTS = {"i8", "i16", "i32", "i64", "i128", "u8", "u16", "u32", "u64", "u128"}
MODULES = ("::scalar::builtin::arith::", "::scalar::builtin::negate::", "::scalar::builtin::numeric::", "::scalar::builtin::datetime::",
           "::aggregate::builtin::sum::", "::aggregate::builtin::avg::")
KERNEL_PREFIX = "glaredb_core::functions::"
OPS = r"<(?P<ty>[iu](?:8|16|32|64|128)) as std::ops::(?P<op>Add|Sub|Mul|Div|Rem|Neg|AddAssign|SubAssign|MulAssign|DivAssign|RemAssign|Shl|Shr)(?:<[^>]*>)?>::"
RAW_METHODS = re.compile(r"core::num::<impl (?P<ty>[iu](?:8|16|32|64|128))>::(?P<m>wrapping_\w+|overflowing_\w+|pow|abs|unchecked_\w+|rem_euclid|div_euclid|isqrt)$")
CHECKED = re.compile(r"(?:core::num::<impl (?P<ty>[iu](?:8|16|32|64|128))>|<(?P<ty2>[iu](?:8|16|32|64|128)) as num_traits::[\w:]*Checked\w+>)::(?P<m>checked_\w+)$")
NT_RAW = re.compile(r"<(?P<ty>[iu](?:8|16|32|64|128)) as num_traits::[\w:]*(?P<m>Wrapping\w+|Overflowing\w+|Pow(?:<[^>]*>)?|Signed|PrimInt)>::(?P<f>\w+)$")
DISCARD = ("::unwrap_or_default", "::unwrap_or", "::unwrap", "::expect", "::unwrap_unchecked", "::unwrap_or_else")


def kernel_sites(rec):
    """raw integer arithmetic sites in one instance record → list of (construct, line, detail)"""
    out = []
    bbs = rec["bbs"]
    locals_ = rec["locals"]
    # map: local -> checked call that defined it
    checked_dst = {}
    for bi, blk in enumerate(bbs):
        t = blk["t"]
        if t[0] == "call" and "def" in t[1]:
            name = t[1].get("res") or t[1]["def"]
            m = re.search(OPS, name)
            if m and m.group("ty") in SQL_INTS:
                out.append((f"{m.group('ty')}::{m.group('op')}", t[6], name))
                continue
            m = RAW_METHODS.search(name)
            if m:
                out.append((f"{m.group('ty')}::{m.group('m')}", t[6], name, tuple(t[2]), (bi, m.group('m'))))
                continue
            m = NT_RAW.search(name)
            if m and m.group("f") in ("wrapping_add", "wrapping_sub", "wrapping_mul", "wrapping_neg", "pow", "abs", "overflowing_add", "overflowing_sub", "overflowing_mul"):
                out.append((f"{m.group('ty')}::{m.group('f')}", t[6], name))
                continue
            m = CHECKED.search(name)
            if m and not t[3][1]:
                checked_dst[t[3][0]] = (m.group("ty") or m.group("ty2"), m.group("m"), t[6])
                continue
            if any(name.endswith(d) for d in DISCARD) and "std::option::Option" in name:
                for a in t[2]:
                    if a[0] in ("c", "m") and a[1][0] in checked_dst and not a[1][1]:
                        ty, mth, ln = checked_dst[a[1][0]]
                        out.append((f"{ty}::{mth}+{name.rsplit('::', 1)[-1]}", t[6], "overflow detected by checked op and then discarded"))
        elif t[0] == "assert":
            k = t[1]
            if k.startswith("Overflow:") or k in ("OverflowNeg", "DivisionByZero", "RemainderByZero"):
                # type of the operation: look for the binop statement feeding it in this block / the next
                ty = None
                for s in blk["s"]:
                    if s[0] == "a" and s[2][0] in ("bin", "un") and s[2][-1] in SQL_INTS:
                        ty = s[2][-1]
                if ty is None and k in ("DivisionByZero", "RemainderByZero", "OverflowNeg"):
                    nb = bbs[t[4]]
                    for s in nb["s"]:
                        if s[0] == "a" and s[2][0] in ("bin", "un") and s[2][-1] in SQL_INTS:
                            ty = s[2][-1]
                if ty:
                    ops = None
                    opname = None
                    for s in blk["s"]:
                        if s[0] == "a" and s[2][0] == "bin" and s[2][-1] == ty:
                            ops = (s[2][2], s[2][3])
                            opname = s[2][1]
                    out.append((f"{ty}::{k}", t[6], "primitive operator with overflow/zero assert (panics; wraps when overflow checks are off)", ops, (bi, opname)))
    # de-duplicate the Div pair (DivisionByZero + Overflow:Div on one line)
    seen, res = set(), []
    for item in out:
        c, ln, d = item[:3]
        if (c, ln) in seen:
            continue
        seen.add((c, ln))
        res.append((c, ln, d, item[3] if len(item) > 3 else None, item[4] if len(item) > 4 else None))
    return res


def exemption(rec, construct, ops, site=None):
    """reasoned exemptions (each re-checked on every run from the instance's own types/operands)"""
    from .mir import Fn, int_range, bin_range, INT_RANGE
    ty = construct.split("::")[0]
    # (0) value-range argument: the operands are (arithmetic over) values widened from narrower integer types or constants,
    #     and the mathematical result range fits the operation's type — the assert can never fire, nothing can wrap
    if site is not None and ops is not None and ty in INT_RANGE:
        fn = Fn(rec)
        bi, opname = site
        tr = INT_RANGE[ty]
        rs = [int_range(fn, o, bi) or tr for o in ops]
        res = None
        if opname in ("abs",) and len(rs) == 1:
            if rs[0][0] > tr[0]:
                res = (0, max(abs(rs[0][0]), abs(rs[0][1])))
        elif opname and len(rs) == 2:
            res = bin_range(opname, rs[0], rs[1])
        if res is not None and tr[0] <= res[0] and res[1] <= tr[1] and any(r != tr for r in rs):
            return (f"value-range argument: operands in {[list(r) for r in rs]} (widened from narrower types / constants), "
                    f"result in [{res[0]}, {res[1]}] fits {ty}")
    iargs_int = [a for a in rec.get("iargs", []) if a in SQL_INTS]
    # (a) wide accumulator: i128 arithmetic in an aggregate state whose input integer types are all <= 64 bits
    if ty == "i128" and "::aggregate::" in rec["id"] and iargs_int and all(a not in ("i128", "u128") for a in iargs_int):
        return "i128 accumulator over <=64-bit inputs cannot overflow below 2^63 rows"
    # (b) row counters: `count += 1` / `count += other.count`
    if ops is not None and "::aggregate::" in rec["id"]:
        fn = Fn(rec)

        def is_count(o):
            if o[0] == "k":
                return o[1].get("k") == "int" and o[1].get("v") == 1
            org = fn.origin(o)
            proj = org[2] if len(org) > 2 and isinstance(org[2], list) else []
            return any(isinstance(p, list) and p[0] == "f" and p[1] == "count" for p in proj)
        if all(is_count(o) for o in ops):
            return "row counter (+1 per row / sum of partial row counts): bounded by the number of rows, cannot reach 2^63"
    return None



# ---------------------------------------------------------------------------------------------
# C12-ERRPATH / C12-ERRSTATE / C12-DECFIT: the checked operation's failure is turned into an error
OPT_INT = re.compile(r"^std::option::Option<(?:[iu](?:8|16|32|64|128)|glaredb_core::arrays::scalar::interval::Interval)>$")
SINKS = ("arith::checked::ArithErrorState::set_overflow", "arith::checked::ArithErrorState::set_div_error",
         "arith::checked::ArithErrorState::set_error", "glaredb_error::DbError::new", "FromResidual>::from_residual",
         "std::ops::FromResidual::from_residual")
CHECKED_SRC = re.compile(r"checked_\w+$|_checked$|NumCast>::from$|Option::<T>::and_then$|::checked_abs$|FnOnce>::call_once$|FnOnce::call_once$|Fn>::call$|Fn::call$|FnMut::call_mut$")
ERRPATH_EXEMPT = {
    "glaredb_core::functions::scalar::builtin::numeric::gcd::signed_gcd":
        "the divisor is non-zero by the loop condition, so None from checked_rem means MIN % -1, whose remainder is 0 (value, not a failure)",
    "glaredb_core::functions::scalar::builtin::arith::checked::CheckedArith>::rem_checked":
        "None with a non-zero divisor is MIN % -1 = 0; the zero-divisor None is returned to the caller unchanged",
}


def _none_edge_ok(fn, sb, t):
    """from the None (discriminant 0) edge of switch `t` at block sb: no normal return is reachable without a sink"""
    tgt = [b for v, b in switch_edges(t) if v == 0]
    if not tgt:
        # `if let Some(..)`-shape: None is the otherwise edge
        tgt = [b for v, b in switch_edges(t) if v is None]
    sink_blocks = {c.bb for c in fn.calls() if any(k in c.name for k in SINKS)}
    bad = []
    for start in tgt:
        if start in sink_blocks:
            continue
        reach = fn.reach(start, avoid_blocks=list(sink_blocks), threaded=False) | {start}
        rets = [b for b in reach if fn.term(b)[0] == "ret"]
        if rets:
            bad.append((start, rets[0]))
    return bad


def rule_errpath(facts, db, rows):
    r = RuleResult("C12-ERRPATH", "in every arithmetic kernel instance, the None outcome of a checked integer operation reaches an error "
                   "(ArithErrorState::set_*, DbError, `?`) before the kernel returns; it is never replaced by a value", floor=60)
    seen = set()
    for row in rows:
        for rec in db.reachable(row, within=lambda rec: KERNEL_PREFIX in rec["id"] and any(m in rec["id"] for m in MODULES + ("::functions::aggregate::simple", ))):
            if rec["key"] in seen:
                continue
            seen.add(rec["key"])
            fn = Fn(rec)
            returns_option = fn.locals[0].startswith("std::option::Option<")
            for sb, pl, t in disc_switches(fn):
                ty = fn.locals[pl[0]].replace("&", "").strip() if not pl[1] else ""
                if not OPT_INT.match(ty):
                    continue
                # only Options that come from a checked arithmetic operation (directly, through and_then, or through a local helper /
                # closure returning the Option); `Iterator::next` and friends are not arithmetic outcomes
                o = fn.origin(["c", [pl[0], []]], at=sb)
                if o[0] != "call" or not CHECKED_SRC.search(o[1].name):
                    continue
                r.functions.add(rec["key"])
                ex = next((why for k, why in ERRPATH_EXEMPT.items() if k in rec["id"]), None)
                if ex:
                    if not any(e[0] == rec["id"] for e in r.exemptions):
                        r.exempt(rec["id"], ex)
                    continue
                bad = [] if returns_option else _none_edge_ok(fn, sb, t)
                r.inst({"fn": rec["id"].replace("glaredb_core::functions::", ""), "option": ty.replace("std::option::", ""), "line": t[5]}, not bad)
                for start, ret in bad:
                    r.violate(rec["id"], f"None-edge:{ty.replace('std::option::', '')}",
                              "the None outcome of a checked integer operation reaches the kernel's normal return without recording an error "
                              "(overflow / division by zero is silently replaced by a value or NULL)", rec["file"], t[5])
    return r


def rule_errstate(facts):
    r = RuleResult("C12-ERRSTATE", "every function that creates an ArithErrorState returns its verdict: each path from the creation to a "
                   "normal return passes ArithErrorState::into_result (or an error return); into_result maps a recorded error to Err", floor=10)
    creators = 0
    for rec in facts.fns_matching(lambda i: "glaredb_core::functions::" in i):
        fn = Fn(rec)
        created = [c for c in fn.calls() if c.name.endswith("::default") and "ArithErrorState" in (fn.locals[c.dst[0]] if not c.dst[1] else "")]
        created += [("agg", b) for b, i, pl, rv, ln in fn.assigns() if rv[0] == "agg" and rv[1][0] == "adt" and rv[1][1].endswith("checked::ArithErrorState")
                    and not rec["id"].endswith("ArithErrorState as std::default::Default>::default")]
        if not created:
            continue
        creators += 1
        r.functions.add(fn.id)
        sinks = {c.bb for c in fn.calls() if c.name.endswith("ArithErrorState::into_result") or "from_residual" in c.name}
        for c in created:
            b0 = c[1] if isinstance(c, tuple) else c.bb
            reach = fn.reach(b0, avoid_blocks=list(sinks), threaded=False)
            rets = [b for b in reach if fn.term(b)[0] == "ret"]
            r.inst({"fn": fn.id.replace("glaredb_core::functions::", ""), "state_created_at": rec["line"]}, not rets)
            if rets:
                r.violate(fn.id, "ArithErrorState-dropped", "an ArithErrorState is created but a normal return is reachable without into_result(): "
                          "failures recorded by the kernel closure are discarded and the rows come back as NULL", rec["file"], fn.term(rets[0])[1] if len(fn.term(rets[0])) > 1 else rec["line"])
    # the helper itself: into_result → Err on the Some edge; set_error stores Some
    recs = facts.fns_matching(lambda i: i.endswith("arith::checked::ArithErrorState::into_result"))
    if not recs:
        r.missing_anchor("ArithErrorState::into_result")
    else:
        fn = Fn(recs[0])
        r.functions.add(fn.id)
        sw = [(sb, pl, t) for sb, pl, t in disc_switches(fn) if "ArithError" in fn.locals[pl[0]]]
        errs = {b for b, i, pl, rv, ln in fn.assigns() if rv[0] == "agg" and rv[1][0] == "adt" and rv[1][1].endswith("result::Result") and rv[1][2] == "Err"}
        oks = {b for b, i, pl, rv, ln in fn.assigns() if rv[0] == "agg" and rv[1][0] == "adt" and rv[1][1].endswith("result::Result") and rv[1][2] == "Ok"}
        ok = bool(sw) and bool(errs)
        if ok:
            sb, pl, t = sw[0]
            for v, tgt in switch_edges(t):
                reach = fn.reach(tgt, avoid_blocks=[sb], threaded=False) | {tgt}
                if v == 0 and reach & errs:
                    ok = False          # None → Err ?!
                if v not in (0, None) and reach & oks:
                    ok = False          # Some(error) → Ok
                if v is None and len(t[2]) < 2 and reach & oks:
                    ok = False
        r.inst({"fn": "ArithErrorState::into_result", "shape": "None→Ok, Some(e)→Err"}, ok)
        if not ok:
            r.violate(fn.id, "into_result-shape", "into_result does not map a recorded arithmetic error to Err on every path", recs[0]["file"], recs[0]["line"])
    recs = facts.fns_matching(lambda i: i.endswith("arith::checked::ArithErrorState::set_error"))
    if not recs:
        r.missing_anchor("ArithErrorState::set_error")
    else:
        fn = Fn(recs[0])
        def _is_some(rv, b):
            if rv[0] == "agg" and rv[1][0] == "adt" and rv[1][2] == "Some":
                return True
            if rv[0] == "use" and rv[1][0] in ("c", "m"):
                o = fn.origin(rv[1], at=b)
                return o[0] == "rv" and o[1][0] == "agg" and o[1][1][0] == "adt" and o[1][1][2] == "Some"
            return False
        stores = [1 for b, i, pl, rv, ln in fn.assigns() if pl[1] and any(isinstance(p, list) and p[0] == "f" and p[1] == "error" for p in pl[1])
                  and _is_some(rv, b)]
        r.inst({"fn": "ArithErrorState::set_error", "shape": "stores Some(error)"}, bool(stores))
        if not stores:
            r.violate(fn.id, "set_error-shape", "set_error does not store the error", recs[0]["file"], recs[0]["line"])
    if creators < 10:
        r.notes.append(f"only {creators} creators")
    return r


def rule_decfit(facts):
    r = RuleResult("C12-DECFIT", "decimal + - * write a result only after the precision check of the output type passed "
                   "(decimal_result_fits) — a precision clamped to the type maximum cannot be exceeded silently", floor=3)
    for name in ("add::DecimalAdd", "sub::DecimalSub", "mul::DecimalMul"):
        recs = facts.fns_matching(lambda i, n=name: f"arith::{n}<D> as" in i and i.endswith("::execute::{closure#0}"))
        if not recs:
            r.missing_anchor(f"{name}::execute closure")
            continue
        rec = recs[0]
        fn = Fn(rec)
        r.functions.add(fn.id)
        puts = [c for c in fn.calls() if c.name.endswith("PutBuffer::<'_, M>::put") or c.name.endswith("::put") and "PutBuffer" in c.name]
        fits = [c for c in fn.calls() if "Fn::call" in c.decl or "Fn>::call" in c.name or "decimal_result_fits" in c.name]
        ok = bool(puts) and bool(fits)
        for p in puts:
            dom = [c for c in fits if fn.dominates(c.bb, p.bb)]
            if not dom:
                ok = False
                continue
            # the put must lie on the `true` side of the fits result
            good = False
            for c in dom:
                for b in range(fn.n):
                    t = fn.term(b)
                    if t[0] == "switch" and t[1][0] in ("c", "m") and t[1][1] == c.dst and fn.dominates(b, p.bb):
                        false_tgts = [tg for v, tg in switch_edges(t) if v == 0]
                        if all(p.bb not in (fn.reach(ft, avoid_blocks=[b], threaded=False) | {ft}) for ft in false_tgts):
                            good = True
            ok = ok and good
        r.inst({"kernel": name, "puts": len(puts), "fits_calls": len(fits)}, ok)
        if not ok:
            r.violate(fn.id, "put-without-precision-check", "a decimal result is written without the output-precision check on the path "
                      "(a result beyond the clamped precision is returned silently)", rec["file"], rec["line"])
    return r


def _range_checked(rec, op, bb):
    """the narrowed value takes part in a comparison in a block that dominates the cast (its range was looked at: e.g.
    `if wanted > MAX { MAX } else { wanted as u8 }`)"""
    from .mir import Fn
    from .c19b import _key
    fn = Fn(rec)
    if op[0] not in ("c", "m"):
        return False
    k, _ = _key(fn, op, bb)
    for b, i, pl, rv, ln in fn.assigns():
        if rv[0] == "bin" and rv[1] in ("Lt", "Le", "Gt", "Ge") and fn.dominates(b, bb) and b != bb:
            for a in (rv[2], rv[3]):
                if a[0] in ("c", "m") and _key(fn, a, b)[0] == k:
                    return True
    return False



def rule_narrowing(facts, db, rows):
    """An accumulator wider than the result type is fine (it cannot overflow), but the way back must be a checked conversion: a
    lossy `as` / AsPrimitive::as_ between SQL integer types in an arithmetic or aggregate kernel truncates modulo 2^n - the
    wrap the checked arithmetic was there to prevent."""
    from .c13 import _lossy
    r = RuleResult("C12-NARROWING", "no lossy integer narrowing (`as`, AsPrimitive::as_) of SQL values in the arithmetic / SUM / AVG kernels", floor=100)
    seen = set()
    for row in rows:
        fname = row["const"].rsplit("::", 1)[-1]
        insts = db.reachable(row, within=lambda rec: KERNEL_PREFIX in rec["id"] and any(m in rec["id"] for m in MODULES + ("::functions::aggregate::simple", )))
        sites = []
        for rec in insts:
            r.functions.add(rec["key"])
            for blk in rec["bbs"]:
                for s_ in blk["s"]:
                    if s_[0] == "a" and s_[2][0] == "cast" and s_[2][1] == "IntToInt":
                        frm, to = s_[2][3], s_[2][4]
                        if frm in SQL_INTS and to in SQL_INTS and _lossy(frm, to):
                            if _range_checked(rec, s_[2][2], rec["bbs"].index(blk)):
                                continue
                            sites.append((rec, f"as:{frm}->{to}", s_[3]))
                t = blk["t"]
                if t[0] == "call" and "def" in t[1]:
                    name = t[1].get("res") or t[1]["def"]
                    m = re.search(r"<(?P<f>[iu](?:8|16|32|64|128)) as num_traits::AsPrimitive<(?P<t>[iu](?:8|16|32|64|128))>>::as_$", name)
                    if m and _lossy(m.group("f"), m.group("t")):
                        sites.append((rec, f"as_:{m.group('f')}->{m.group('t')}", t[6]))
        r.inst({"row": f"{fname}#{row['ord']}", "kernel_instances": len(insts), "lossy_narrowings": len(sites)}, not sites)
        for rec, c, ln in sites:
            key = (rec["id"], c)
            if key in seen:
                continue
            seen.add(key)
            r.violate(rec["id"], c, f"lossy integer narrowing {c.split(':', 1)[1]} in the kernel of `{fname}`: a value outside the narrower type's range is truncated "
                      "modulo 2^n instead of raising an overflow error", rec["file"], ln)
    return r



def rule_tablefn(facts, rule="C12-TABLEFN", TF="glaredb_core::functions::table::builtin::", what="the built-in table functions", floor=3):
    """Table functions that compute with SQL integers (generate_series: curr += step) are not registry rows with a kernel closure, so the
    instantiation walk does not reach them; their bodies are examined directly with the same classification. The same holds for the
    comparison operators' bind code (their function sets are built by a generic constructor the registry extraction does not read), which
    computes decimal precision/scale for the operand casts."""
    r = RuleResult(rule, f"no raw / discarded-checked integer arithmetic on SQL values in {what}", floor=floor)
    for rec in facts.fns_matching(lambda i: (i.startswith(TF) or ("<" + TF) in i) and "::tests::" not in i):
        if not any(t.strip() in SQL_INTS for t in rec["locals"]):
            continue
        r.functions.add(rec["id"])
        sites = []
        for c, ln, d, ops, site in kernel_sites(rec):
            if c.split("::")[0] in ("usize", "isize"):
                continue
            ex = exemption(rec, c, ops, site)
            if ex:
                r.exempt(f"{rec['id']} {c}", ex)
                continue
            sites.append((c, ln, d))
        r.inst({"fn": rec["id"], "raw_sites": len(sites)}, not sites)
        for c, ln, d in sites:
            r.violate(rec["id"], c, f"{d if 'checked' in d or 'assert' in d else 'raw integer operator ' + d} on SQL values in {what}: overflow panics "
                      "(in a worker: aborting the process) or wraps instead of raising an error", rec["file"], ln)
    return r



# unary functions whose exact result on an integer / decimal argument is again an integer / decimal: when the function set lacks a
# signature for those types, the implicit cast picks Float64 and the result is inexact above 2^53 (abs(-9007199254740993) = ...992)
EXACT_UNARY = {
    "FUNCTION_SET_ABS": "abs",
    "FUNCTION_SET_NEGATE": "unary minus",
    "FUNCTION_SET_CEIL": "ceil",
    "FUNCTION_SET_FLOOR": "floor",
    "FUNCTION_SET_ROUND": "round",
    "FUNCTION_SET_TRUNC": "trunc",
}


def rule_intsig(facts):
    """Integer and decimal arguments must not be routed through Float64 by functions whose result on them is exactly representable in
    the argument's own type. Decided on the registry: each function set of the frozen table has a one-argument signature T -> T for
    the signed 64/128-bit integers and for both decimal widths."""
    r = RuleResult("C12-INTSIG", "abs, unary minus, ceil, floor, round, trunc have exact signatures for Int64/Int128 and Decimal64/Decimal128 (no detour through Float64)", floor=24)
    consts = {c["id"]: c for c in facts.records("const")}
    sets = {}
    for row in facts.records("row", "glaredb_core"):
        nm = row["const"].rsplit("::", 1)[-1]
        if nm in EXACT_UNARY and "RawScalarFunction" in row["ctor"]:
            sig = signature_of(row, consts)
            sets.setdefault(nm, {"rows": [], "file": row["file"], "line": row["line"], "const": row["const"]})["rows"].append(sig)
    for nm, what in EXACT_UNARY.items():
        if nm not in sets:
            r.missing_anchor(nm)
            continue
        ent = sets[nm]
        have = {s_[0][0] for s_ in ent["rows"] if s_ and len(s_[0]) == 1 and s_[0][0] == s_[2]}
        for t in ("Int64", "Int128", "Decimal64", "Decimal128"):
            ok = t in have
            r.inst({"function": what, "type": t, "exact_signature": ok}, ok)
            if not ok:
                r.violate(ent["const"], f"no-exact-signature:{t}", f"{what}() has no {t} -> {t} signature: a {t} argument is implicitly cast to Float64 and the result is inexact "
                          "beyond 2^53", ent["file"], ent["line"])
    return r



def _qsign(facts):
    from .c13 import rule_qsign
    return rule_qsign(facts, rule="C12-QSIGN")


def run(ctx):
    facts = ctx["facts"]
    consts = {c["id"]: c for c in facts.records("const")}
    db = InstDB(facts)
    r = RuleResult("C12-RAW", "no raw / discarded-checked integer arithmetic in arithmetic kernels instantiated at integer or decimal types", floor=100)
    rows = [x for x in facts.records("row", "glaredb_core") if any(m in x["const"] for m in MODULES) and "Cast" not in x["ctor"]]
    seen_keys = set()
    exempted = set()
    nrows = 0
    for row in rows:
        sig = signature_of(row, consts)
        if sig is None:
            r.violate(row["const"], f"row#{row['ord']}", "registry row signature not readable (failing closed)", row["file"], row["line"])
            continue
        ids = set(sig[0] or []) | {sig[2]} | ({sig[1]} if sig[1] else set())
        if not (ids & INT_IDS):
            continue
        nrows += 1
        fname = row["const"].rsplit("::", 1)[-1]
        insts = db.reachable(row, within=lambda rec: KERNEL_PREFIX in rec["id"] and any(m in rec["id"] for m in MODULES + ("::functions::aggregate::simple", )))
        sites = []
        for rec in insts:
            r.functions.add(rec["key"])
            for c, ln, d, ops, site in kernel_sites(rec):
                ex = exemption(rec, c, ops, site)
                if ex:
                    if (rec["id"], c) not in exempted:
                        exempted.add((rec["id"], c))
                        r.exempt(f"{rec['id']} {c}", ex)
                    continue
                sites.append((rec, c, ln, d))
        r.call_sites += len(sites)
        r.inst({"row": f"{fname}#{row['ord']}", "impl": row["impl_ty"].replace("glaredb_core::", ""), "sig": [sig[0], sig[2]],
                "kernel_instances": len(insts), "raw_sites": len(sites)}, not sites)
        for rec, c, ln, d in sites:
            # key: generic function + operation at the instantiated type (no line numbers)
            fn = rec["id"]
            key = (fn, c)
            if key in seen_keys:
                continue
            seen_keys.add(key)
            r.violate(fn, c, f"{d if 'checked' in d or 'assert' in d else 'raw integer operator ' + d} in the kernel of `{fname}` at {c.split('::')[0]}: "
                      "overflow / division by zero panics (worker abort) or wraps instead of raising an error", rec["file"], ln)
    r.notes.append(f"{nrows} integer/decimal rows of {len(rows)} arithmetic rows walked")
    int_rows = []
    for row in rows:
        sig = signature_of(row, consts)
        if sig and ((set(sig[0] or []) | {sig[2]} | ({sig[1]} if sig[1] else set())) & INT_IDS):
            int_rows.append(row)
    from .c18 import rule_elide
    # decimal + - and comparisons bring both operands to the common decimal type; the kernel then adds the raw integers.
    # An operand that keeps a different scale is added as if it had the common scale: a silently wrong sum.
    deccast = rule_elide(facts, rule="C12-DECCAST", only=lambda fid: "::functions::" in fid, floor=6)
    return [r, rule_errpath(facts, db, int_rows), rule_errstate(facts), rule_decfit(facts), deccast, rule_tablefn(facts), rule_narrowing(facts, db, int_rows),
            rule_tablefn(facts, "C12-CMPBIND", "glaredb_core::functions::scalar::builtin::comparison::", "the comparison operators' bind and kernels", 1), rule_intsig(facts), _qsign(facts)]


CLAIM = {
    "text": "Bounded instantiation walk (depth 6 quick / 10 thorough) from each arithmetic registry row with an integer or decimal "
            "signature into the monomorphic kernel bodies; every integer operation on SQL values there is classified as checked-with-error, "
            "raw, or checked-then-discarded. This decides, for all inputs at once, whether an overflow CAN wrap or panic (failure-mode "
            "clause); whether results are numerically exact is a value question and is not claimed. Plus the operand-cast guard of decimal + - and comparisons (shared engine with C18-ELIDE): a path that skips bringing an operand to the common decimal type has established equality of precision and scale, through helpers and ||/&& chains. Plus: no lossy integer narrowing (`as`, AsPrimitive::as_) of SQL values in those kernels unless the narrowed value was range-compared first; and the same classification over the bodies of the built-in table functions (generate_series)."
            " Plus CMPBIND: the same raw-arithmetic discipline over the comparison operators' bind functions."
            " Plus INTSIG: abs, unary minus, ceil, floor, round, trunc have exact Int64/Int128/Decimal64/Decimal128 signatures (no detour through Float64).",
    "note": "trusted: rustc MIR + trait resolution under the fully monomorphic typing env; kernel = code under glaredb_core::functions:: in the "
            "arithmetic modules; usize/isize index arithmetic is not SQL-value arithmetic and is excluded",
    "technique": "static analysis: registry-driven instantiation walk over MIR + operator classification (rustc_private driver)",
}
