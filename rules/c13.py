"""C13 — casts are exact-or-error (narrow clauses).
  C13-FLAT  a nested cast is collapsed (inner CastExpr's child re-used under a new CastExpr) only on
            a path guarded by the `flatten == Safe` flag of *the cast being dropped*
  C13-TAB   cast registry: CastFlatten::Safe only on lossless (source ⊆ target) pairs; PrimToPrim<S1,S2>
            storage parameters agree with the row's source id and the set's target
Not decided: rounding mode, text round trip, the values produced by each cast kernel."""
import re
from .framework import RuleResult
from .mir import Fn, switch_edges, op_const

EXPLANATION = ("Decides (a) on MIR: every site that drops an inner cast is edge-dominated by the Safe edge of the dropped cast's own "
               "flatten flag; (b) on the const registry tables: `CastFlatten::Safe` appears only on lossless type pairs and PrimToPrim "
               "storage parameters match the announced source/target ids. Both are necessary for casts to be exact-or-error; the values "
               "computed by cast kernels are not decided.")
NOT_DECIDED = ["rounding mode of float→int / decimal rescale", "text round-trip of every value", "kernel arithmetic (see C12 for raw-arithmetic rule)"]

CASTEXPR = "glaredb_core::expr::cast_expr::CastExpr"
RAWCAST = "glaredb_core::functions::cast::RawCastFunction"

INT_RANGE = {}
for b in (8, 16, 32, 64, 128):
    INT_RANGE[f"Int{b}"] = (-(1 << (b - 1)), (1 << (b - 1)) - 1)
    INT_RANGE[f"UInt{b}"] = (0, (1 << b) - 1)
FLOAT_ORDER = {"Float16": 0, "Float32": 1, "Float64": 2}


def lossless(src, dst):
    """source value set ⊆ target value set with identical meaning"""
    if src == "Null":
        return True
    if src == dst and (src in INT_RANGE or src in FLOAT_ORDER or src in ("Boolean", "Utf8", "Binary", "Date32", "Date64", "Interval")):
        return True
    if src in INT_RANGE and dst in INT_RANGE:
        return INT_RANGE[dst][0] <= INT_RANGE[src][0] and INT_RANGE[src][1] <= INT_RANGE[dst][1]
    if src in FLOAT_ORDER and dst in FLOAT_ORDER:
        return FLOAT_ORDER[src] <= FLOAT_ORDER[dst]
    return False


def _safe_discr(facts):
    for a in facts.records("adt", "glaredb_core"):
        if a["id"] == "glaredb_core::functions::cast::CastFlatten":
            return {v["name"]: v["discr"] for v in a["variants"]}
    return None


def rule_flat(facts):
    r = RuleResult("C13-FLAT", "dropping an inner cast is guarded by the dropped cast's own flatten==Safe flag", floor=1)
    discr = _safe_discr(facts)
    if not discr or "Safe" not in discr:
        r.missing_anchor("enum CastFlatten::Safe")
        return r
    # candidate functions: construct a CastExpr
    for rec in facts.all_fns(["glaredb_core"], contains=CASTEXPR):
        if CASTEXPR not in str(rec["locals"]):
            continue
        fn = Fn(rec)
        sites = []
        for b, i, pl, rv, ln in fn.assigns():
            if rv[0] == "agg" and rv[1][0] == "adt" and rv[1][1] == CASTEXPR:
                k = rv[1][3].index("expr")
                org = fn.origin(rv[2][k])
                proj = org[2] if len(org) > 2 and isinstance(org[2], list) else []
                if any(isinstance(p, list) and p[0] == "f" and p[1] == "expr" and p[2] == CASTEXPR for p in proj):
                    sites.append((b, ln))
        if not sites:
            continue
        r.functions.add(fn.id)
        # flatten flag reads
        reads = []
        for b, i, pl, rv, ln in fn.assigns():
            if rv[0] == "disc":
                src = rv[1]
                fl = [p for p in src[1] if isinstance(p, list) and p[0] == "f"]
                if fl and fl[-1][1] == "flatten" and fl[-1][2] == RAWCAST:
                    org = fn.origin(["c", [src[0], []]])
                    chain = [p for p in (org[2] if len(org) > 2 and isinstance(org[2], list) else []) if isinstance(p, list) and p[0] == "f"] + fl
                    inner = any(p[1] == "cast_function" and p[2] == CASTEXPR for p in chain)
                    t = fn.term(b)
                    if t[0] == "switch" and t[1][1][0] == pl[0]:
                        safe_t = [tb for v, tb in switch_edges(t) if v == discr["Safe"]]
                        reads.append((b, safe_t[0] if safe_t else None, inner, ln))
        for sb, ln in sites:
            guards = [(b, st, inner) for b, st, inner, _ in reads if st is not None and fn.edge_dominates(b, st, sb)]
            ok = any(inner for _, _, inner in guards)
            r.inst({"fn": fn.id, "collapse_site_line": ln, "safe_guards": len(guards), "guard_on_dropped_cast": ok}, ok)
            if not ok:
                r.violate(fn.id, "cast-collapse", "an inner cast is dropped without testing that cast's own `flatten == Safe` flag "
                          f"({len(guards)} guard(s) on other casts): overflow/truncation of the inner cast is silently skipped "
                          "(e.g. 3000000000::INT::BIGINT returns a value)", rec["file"], ln)
    return r


def _variant(e):
    if isinstance(e, dict) and e.get("k") == "path":
        return e["def"].rsplit("::", 1)[-1]
    return None


def _phys_to_id(p):
    m = re.search(r"Physical(\w+)$", p)
    if not m:
        return None
    n = m.group(1)
    n = n.replace("I", "Int", 1) if re.fullmatch(r"I\d+", n) else n
    n = n.replace("U", "UInt", 1) if re.fullmatch(r"U\d+", n) else n
    n = n.replace("F", "Float", 1) if re.fullmatch(r"F\d+", n) else n
    return n


def rule_tab(facts):
    r = RuleResult("C13-TAB", "CastFlatten::Safe only on lossless pairs; PrimToPrim storage params match ids", floor=200)
    consts = {c["id"]: c for c in facts.records("const", "glaredb_core")}
    rows = [x for x in facts.records("row", "glaredb_core") if x["ctor"].endswith("RawCastFunction::new")]
    for row in rows:
        cst = consts.get(row["const"])
        target = None
        if cst and cst["e"].get("k") == "struct":
            for nm, e in cst["e"]["fields"]:
                if nm == "target":
                    target = _variant(e)
        src = _variant(row["args"][0])
        flat = _variant(row["args"][3]) if len(row["args"]) > 3 else None
        if src is None or flat is None or target is None:
            r.inst({"row": f"{row['const']}#{row['ord']}", "unparsed": True}, False)
            r.violate(row["const"], f"row#{row['ord']}", "cast registry row not in the expected `RawCastFunction::new(DataTypeId::X, &impl, rule, flatten)` "
                      "shape inside a CastFunctionSet{target: DataTypeId::Y,..} (rule cannot read it; failing closed)", row["file"], row["line"])
            continue
        ok = True
        why = ""
        if flat == "Safe" and not lossless(src, target):
            ok = False
            why = f"{src}→{target} is marked CastFlatten::Safe but is not lossless: flattening through it can skip an error or change a value"
        m = re.search(r"PrimToPrim<(.+), (.+)>$", row["impl_ty"])
        if ok and m:
            s1, s2 = _phys_to_id(m.group(1)), _phys_to_id(m.group(2))
            phys = {"Date32": "Int32", "Date64": "Int64", "Timestamp": "Int64", "Decimal64": "Int64", "Decimal128": "Int128"}
            if s1 != phys.get(src, src):
                ok = False
                why = f"row announces source {src} but the kernel reads storage {m.group(1).rsplit('::',1)[-1]}"
            elif s2 != phys.get(target, target):
                ok = False
                why = f"set target is {target} but the kernel writes storage {m.group(2).rsplit('::',1)[-1]}"
        r.inst({"row": f"{row['const'].rsplit('::',1)[-1]}#{row['ord']}", "src": src, "target": target, "flatten": flat}, ok)
        if not ok:
            r.violate(row["const"], f"{src}->{target}", why, row["file"], row["line"])
    return r


RANGE = {}
for _b in (8, 16, 32, 64, 128):
    RANGE[f"i{_b}"] = (-(1 << (_b - 1)), (1 << (_b - 1)) - 1)
    RANGE[f"u{_b}"] = (0, (1 << _b) - 1)


def _lossy(frm, to):
    if frm in RANGE and to in RANGE:
        return not (RANGE[to][0] <= RANGE[frm][0] and RANGE[frm][1] <= RANGE[to][1])
    if frm in ("f32", "f64", "half::f16") and to in RANGE:
        return True
    if frm == "f64" and to in ("f32", "half::f16"):
        return True
    return False


# (function, construct) -> reason; one named site each
NARROW_EXEMPT = {
    ("<glaredb_core::functions::cast::parse::DecimalParser<T> as glaredb_core::functions::cast::parse::Parser>::parse", "i16::Overflow:Sub"):
        "difference of two i8 values widened to i16 cannot overflow",
    ("glaredb_core::arrays::scalar::decimal::DecimalType::validate_precision", "u32::Overflow:Add"):
        "ilog10() of a 64/128-bit integer is at most 38; +1 cannot overflow u32",
    ("<glaredb_core::functions::cast::parse::Date32Parser as glaredb_core::functions::cast::parse::Parser>::parse", "i32::Overflow:Sub"):
        "chrono::NaiveDate is limited to ±262143 years, so num_days_from_ce() - EPOCH_DAYS_FROM_CE stays far inside i32",
    ("<glaredb_core::functions::cast::builtin::to_decimal::DecimalToDecimal<D1, D2> as glaredb_core::functions::cast::CastFunction>::cast::{closure#0}", "i64::Neg"):
        "negates state.rounding_addition = scale_amount / 2 ≥ 0 (never the minimum value)",
    ("<glaredb_core::functions::cast::builtin::to_decimal::DecimalToDecimal<D1, D2> as glaredb_core::functions::cast::CastFunction>::cast::{closure#0}", "i128::Neg"):
        "negates state.rounding_addition = scale_amount / 2 ≥ 0 (never the minimum value)",
}


def rule_narrow(facts):
    """cast kernels: no lossy `as` / AsPrimitive on values, no raw integer arithmetic (incl. bind-time scale factors)"""
    from .instwalk import InstDB
    from . import c12
    r = RuleResult("C13-NARROW", "cast kernels convert with checked conversions: no lossy `as`, no raw integer arithmetic on values or scale factors", floor=200)
    db = InstDB(facts)
    rows = [x for x in facts.records("row", "glaredb_core") if x["ctor"].endswith("RawCastFunction::new")]
    seen = set()
    ranged = set()
    for row in rows:
        insts = db.reachable(row, within=lambda rec: "glaredb_core::functions::cast::" in rec["id"] or "glaredb_core::arrays::scalar::decimal" in rec["id"])
        sites = []
        for rec in insts:
            r.functions.add(rec["key"])
            for c, ln, d, ops, _site in c12.kernel_sites(rec):
                if re.search(r"::(Div|Rem|DivisionByZero|RemainderByZero|Overflow:Div|Overflow:Rem|DivAssign|RemAssign)$", c):
                    continue     # division by a (positive) scale factor cannot overflow; /0 and MIN/-1 on SQL values are C12's subject
                ex = NARROW_EXEMPT.get((rec["id"], c))
                if ex:
                    r.exempt(f"{rec['id']} {c}", ex)
                    continue
                vr = c12.exemption(rec, c, ops, _site)
                if vr and vr.startswith("value-range argument"):
                    if (rec["id"], c) not in ranged:
                        ranged.add((rec["id"], c))
                        r.exempt(f"{rec['id']} {c}", vr)
                    continue
                sites.append((rec, c, ln, "raw integer arithmetic: " + d))
            for blk in rec["bbs"]:
                for s in blk["s"]:
                    if s[0] == "a" and s[2][0] == "cast" and s[2][1] in ("IntToInt", "FloatToInt", "FloatToFloat"):
                        frm, to = s[2][3], s[2][4]
                        if _lossy(frm, to):
                            sites.append((rec, f"as:{frm}->{to}", s[3], f"lossy `as` cast {frm} → {to} (wraps / saturates silently)"))
                t = blk["t"]
                if t[0] == "call" and "def" in t[1]:
                    name = t[1].get("res") or t[1]["def"]
                    m = re.search(r"<(?P<f>[\w:]+) as num_traits::AsPrimitive<(?P<t>[\w:]+)>>::as_$", name)
                    if m and _lossy(m.group("f"), m.group("t")):
                        sites.append((rec, f"as_:{m.group('f')}->{m.group('t')}", t[6], f"lossy AsPrimitive::as_ {m.group('f')} → {m.group('t')}"))
        src = _variant(row["args"][0])
        r.inst({"row": f"{row['const'].rsplit('::', 1)[-1]}#{row['ord']}", "src": src, "kernel_instances": len(insts), "lossy_or_raw_sites": len(sites)}, not sites)
        for rec, c, ln, d in sites:
            key = (rec["id"], c)
            if key in seen:
                continue
            seen.add(key)
            r.violate(rec["id"], c, f"{d} in a cast kernel (first seen for {row['const'].rsplit('::', 1)[-1]} from {src}): the cast can yield a wrapped / out-of-range "
                      "value or panic instead of an error", rec["file"], ln)
    return r


QSCOPE = ("::functions::cast::", "::scalar::builtin::numeric::")
_DIVRE = re.compile(r"(checked_div|div_checked|Div(<[^>]*>)?>::div|ops::Div::div|::div_euclid)$")


def _quotient_params(facts, fns):
    """{function id: {parameter index (1-based MIR arg)}} of parameters that receive a signed quotient: the payload parameter of a
    closure handed to Option/Result::and_then/map/map_or… on the result of a division, and parameters of in-scope callees (trait methods:
    every impl) whose argument is a quotient or such a parameter. Three rounds."""
    tainted = {}
    impls = {}
    for fid in fns:
        m = re.match(r"<.+ as (.+)>::(\w+)$", fid)
        if m:
            impls.setdefault((m.group(1).split("<")[0], m.group(2)), []).append(fid)

    def is_q(fn, fid, op, at):
        if op[0] not in ("c", "m"):
            return False
        o = fn.origin(op, at=at, through_calls=("::unwrap", "::branch", "::expect"))
        if o[0] == "rv" and o[1][0] == "bin" and o[1][1].startswith("Div") and str(o[1][4]).startswith("i"):
            return True
        if o[0] == "call" and _DIVRE.search(o[1].name):
            return True
        if o[0] == "arg" and o[1] in tainted.get(fid, ()) and not [p_ for p_ in (o[2] if len(o) > 2 else []) if p_ != "*"]:
            return True
        return False
    for _round in range(3):
        changed = False
        for fid, fn in fns.items():
            for c in fn.calls():
                last = c.name.rsplit("::", 1)[-1]
                if last in ("and_then", "map", "map_or", "map_or_else", "is_some_and", "filter") and ("Option" in c.name or "Result" in c.name) and len(c.args) >= 2:
                    recv = fn.origin(c.args[0], at=c.bb)
                    if recv[0] == "call" and _DIVRE.search(recv[1].name) or is_q(fn, fid, c.args[0], c.bb):
                        for a in c.args[1:]:
                            o = fn.origin(a, at=c.bb) if a[0] in ("c", "m") else None
                            if o and o[0] == "rv" and o[1][0] == "agg" and o[1][1][0] == "closure":
                                k = o[1][1][1]
                                if 2 not in tainted.setdefault(k, set()):
                                    tainted[k].add(2)
                                    changed = True
                    continue
                targets = []
                if c.name in fns:
                    targets = [c.name]
                else:
                    tr = (c.callee.get("trait") or "").split("<")[0]
                    if tr:
                        targets = impls.get((tr, last), [])
                if not targets:
                    continue
                for idx, a in enumerate(c.args):
                    if is_q(fn, fid, a, c.bb):
                        for t in targets:
                            if (idx + 1) not in tainted.setdefault(t, set()):
                                tainted[t].add(idx + 1)
                                changed = True
        if not changed:
            break
    return tainted


def rule_qsign(facts, rule="C13-QSIGN"):
    """Integer division truncates toward zero, so a quotient of 0 has lost the dividend's sign and `quotient > 0` is false for every negative
    dividend. An ordering test of a *quotient* against zero is therefore not a test of the value's sign: used to pick the rounding
    direction it rounds -0.6 to +1, used as a presence test in a formatter it drops negative components. Cast kernels, formatters and
    the numeric functions must test the dividend or the remainder (or `!= 0`), never the quotient - unless the dividend is provably
    non-negative. Quotients are followed into closure payloads (`checked_div(..).and_then(|q| ..)`) and into the parameters of
    in-scope callees (trait methods: every impl)."""
    from .mir import int_range
    r = RuleResult(rule, "cast kernels / formatters / numeric functions never order-compare a signed quotient with zero", floor=0)
    nfn = 0
    fns = {}
    for rec in facts.all_fns(["glaredb_core"], contains=QSCOPE):
        if not any(m in rec["id"] for m in QSCOPE) or "::tests::" in rec["id"]:
            continue
        fns[rec["id"]] = Fn(rec)
    tainted = _quotient_params(facts, fns)
    for fid, fn in fns.items():
        rec = fn.rec
        nfn += 1

        def quotient(op, at):
            if op[0] not in ("c", "m"):
                return None
            o = fn.origin(op, at=at, through_calls=("::unwrap", "::branch", "::expect"))
            if o[0] == "rv" and o[1][0] == "bin" and o[1][1].startswith("Div") and o[1][4] in ("i8", "i16", "i32", "i64", "i128", "isize"):
                lo = int_range(fn, o[1][2], at)
                if lo is not None and lo[0] >= 0:
                    return None            # non-negative dividend
                return "`/`"
            if o[0] == "call" and _DIVRE.search(o[1].name):
                return o[1].name.rsplit("::", 1)[-1]
            if o[0] == "arg" and o[1] in tainted.get(fid, ()) and not [p_ for p_ in (o[2] if len(o) > 2 else []) if p_ != "*"]:
                return f"a division at a caller (parameter {o[1]})"
            return None

        def is_zero(op, at):
            if op[0] == "k":
                return op[1].get("v") in (0, 0.0) or str(op[1].get("v", "")).endswith("ZERO")
            o = fn.origin(op, at=at)
            return o[0] == "const" and (o[1].get("v") == 0 or "ZERO" in str(o[1]))
        sites = []
        for b, i, pl, rv, ln in fn.assigns():
            if rv[0] == "bin" and rv[1] in ("Gt", "Ge", "Lt", "Le"):
                for x, y in ((rv[2], rv[3]), (rv[3], rv[2])):
                    q = quotient(x, b)
                    if q and is_zero(y, b):
                        sites.append((ln, q))
        for c in fn.calls():
            if c.name.endswith(("::gt", "::ge", "::lt", "::le")) and "PartialOrd" in (c.decl + c.name) and len(c.args) == 2:
                for x, y in ((c.args[0], c.args[1]), (c.args[1], c.args[0])):
                    q = quotient(x, c.bb)
                    if q and is_zero(y, c.bb):
                        sites.append((c.line, q))
            elif c.name.rsplit("::", 1)[-1] in ("is_negative", "is_positive", "signum") and c.args:
                q = quotient(c.args[0], c.bb)
                if q:
                    sites.append((c.line, q))
        for ln, q in sorted(set(sites)):
            r.functions.add(fn.id)
            r.call_sites += 1
            r.inst({"fn": fn.id, "line": ln, "quotient_from": q}, False)
            r.violate(fn.id, "quotient-sign-test", f"the result of {q} is order-compared with zero at line {ln}: a quotient truncated toward zero says nothing about the sign "
                      "of a dividend smaller than the divisor (wrong rounding direction / negative components dropped)", rec["file"], ln)
    r.notes.append(f"{nfn} cast/format/numeric functions scanned; quotient-carrying parameters: {sum(len(v) for v in tainted.values())}")
    if nfn < 100:
        r.missing_anchor(f"cast / format / numeric functions (found {nfn}, expected at least 100)")
    return r


def _str_consts(rec):
    out = set()

    def walk(x):
        if isinstance(x, dict):
            if x.get("k") in ("c", "str") and isinstance(x.get("v"), str) and "str" in str(x.get("ty")):
                out.add(x["v"].strip('"'))
            for v in x.values():
                walk(v)
        elif isinstance(x, list):
            for v in x:
                walk(v)
    walk(rec["bbs"])
    return out


def rule_rtwords(facts):
    """Text round trip of intervals, vocabulary half: every unit word the interval formatter can print (singular and, when it appends
    an `s`, plural) is a spelling the interval parser's unit table accepts. (`2 months` printed as `2 mons` and `mons` not being parseable
    breaks `(x::VARCHAR)::INTERVAL = x` for every interval with a month component.)"""
    r = RuleResult("C13-RTWORDS", "every unit word the interval formatter prints is accepted by the interval parser's unit table", floor=3)
    fm = facts.fns_matching(lambda i: "cast::format::IntervalFormatter as" in i and i.endswith("::write"))
    ps = facts.fns_matching(lambda i: "cast::parse::IntervalUnit as std::str::FromStr>::from_str" in i)
    if not fm or not ps:
        r.missing_anchor("IntervalFormatter::write / IntervalUnit::from_str")
        return r
    fconst = _str_consts(fm[0])
    accepted = _str_consts(ps[0])
    words = sorted({w for cst in fconst for w in re.findall(r"[a-z]{2,}", cst)})
    plural = "s" in fconst or any(re.search(r"[a-z]s\b", cst) for cst in fconst)
    r.functions.update([fm[0]["id"], ps[0]["id"]])
    if len(accepted) < 10:
        r.missing_anchor("unit spellings in IntervalUnit::from_str")
        return r
    for w in words:
        forms = [w] + ([w + "s"] if plural else [])
        missing = [x for x in forms if x not in accepted]
        r.inst({"word": w, "forms": forms, "accepted_by_parser": not missing}, not missing)
        if missing:
            r.violate(fm[0]["id"], f"unparseable-unit:{w}", f"the interval formatter prints `{'`/`'.join(missing)}` but the parser's unit table does not accept it: the text of an "
                      "interval with that component does not read back", fm[0]["file"], fm[0]["line"])
    return r


def rule_precchk(facts):
    """A DECIMAL(p, s) value has at most p digits. The cast kernels that produce decimals by arithmetic (integer / float / decimal
    sources) therefore write a value only on the accepting branch of `validate_precision` for the target precision; the text source
    goes through DecimalParser, where the comparison with the precision has to come after the last operation that changes the value."""
    r = RuleResult("C13-PRECCHK", "decimal-producing cast kernels write a value only behind validate_precision; the text parser compares with the precision "
                   "after the value's last update", floor=4)
    for rec in facts.fns_matching(lambda i: "cast::builtin::to_decimal::" in i and "::tests::" not in i and "::cast::{closure" in i):
        fn = Fn(rec)
        puts = [c for c in fn.calls() if "PutBuffer" in c.name and c.name.endswith("::put")]
        if not puts:
            continue
        r.functions.add(fn.id)
        if "Utf8ToDecimal" in rec["id"]:
            continue
        vals = [c for c in fn.calls() if c.name.endswith("::validate_precision") or c.decl.endswith("::validate_precision")]
        for p_ in puts:
            r.call_sites += 1
            ok = False
            for v in vals:
                if v.target is None:
                    continue
                # the verdict is branched on and the put lies only on one side
                region_ok = False
                for b in fn.reachable_from(v.target):
                    t = fn.term(b)
                    if t[0] == "switch" and fn.dominates(v.bb, b) and fn.dominates(b, p_.bb) and b != p_.bb:
                        sides = [tg for _v, tg in switch_edges(t) if p_.bb in fn.reachable_from(tg, avoid=[b])]
                        if len(sides) == 1:
                            region_ok = True
                ok = ok or region_ok
            r.inst({"fn": fn.id, "put_line": p_.line, "behind_validate_precision": ok}, ok)
            if not ok:
                r.violate(fn.id, "put-without-precision-check", f"the decimal written at line {p_.line} is not behind validate_precision for the target type: a value with more digits than the "
                          "declared precision is stored under that type", rec["file"], p_.line)
    # text → decimal
    recs = facts.fns_matching(lambda i: "cast::parse::DecimalParser<T> as" in i and i.endswith("::parse"))
    if not recs:
        r.missing_anchor("DecimalParser::parse")
        return r
    fn = Fn(recs[0])
    r.functions.add(fn.id)
    cmp_blocks = []
    for b, i, pl, rv, ln in fn.assigns():
        if rv[0] == "bin" and rv[1] in ("Gt", "Ge", "Lt", "Le"):
            for x in (rv[2], rv[3]):
                if x[0] in ("c", "m"):
                    o = fn.origin(x, at=b)
                    if any(isinstance(p_, list) and p_[0] == "f" and p_[1] == "precision" for p_ in (o[2] if len(o) > 2 and isinstance(o[2], list) else [])):
                        cmp_blocks.append((b, ln))
    if not cmp_blocks:
        r.inst({"fn": fn.id, "precision_compared": False}, False)
        r.violate(fn.id, "no-precision-comparison", "DecimalParser::parse never compares with self.precision", recs[0]["file"], recs[0]["line"])
        return r
    # value-changing operations on the accumulator that can still run after the (last) precision comparison
    b_last, ln_last = max(cmp_blocks, key=lambda x: x[1])
    after = fn.reachable_from(b_last)
    late = [c for c in fn.calls() if c.bb in after and c.bb != b_last and re.search(r"checked_(mul|add|div)$", c.name)
            and not any(fn.dominates(c.bb, b_last) for _ in [0])]
    # exclude operations that are part of negating the final value (checked_sub) and digit counting loops before the comparison
    late = [c for c in late if b_last not in fn.reachable_from(c.bb)]
    ok = not late
    r.inst({"fn": fn.id, "precision_comparison_line": ln_last, "value_updates_after_it": [c.line for c in late]}, ok)
    if not ok:
        r.violate(fn.id, "precision-checked-before-scaling", f"the value is still multiplied / extended at line(s) {sorted({c.line for c in late})} after the comparison with the precision "
                  f"(line {ln_last}): padding to the target scale can push it past the declared precision ('123'::DECIMAL(4,2) = 123.00)", recs[0]["file"], ln_last)
    return r


def _group(fid):
    """impl group of a function id: strip the method (and closures) so that bind, cast and their closures fall together"""
    base = fid.split("::{closure")[0]
    return base.rsplit("::", 1)[0]


def rule_scalesign(facts):
    """A decimal scale is signed: a positive scale multiplies by 10^scale, a negative one divides. Code that takes the magnitude
    (`scale.unsigned_abs()`) to build the power of ten must therefore also look at the sign somewhere in the same impl (bind, cast or
    their closures); otherwise the negative case is treated like the positive one (12::double::decimal(5,-1) was 1200)."""
    r = RuleResult("C13-SCALESIGN", "an impl that takes the magnitude of a decimal scale also tests its sign", floor=4)
    CAST = "glaredb_core::functions::cast::"
    groups = {}
    for rec in facts.all_fns(["glaredb_core"], contains="functions::cast::"):
        if CAST not in rec["id"] or "::tests::" in rec["id"]:
            continue
        g = groups.setdefault(_group(rec["id"]), {"abs": [], "sign": False})
        fn = Fn(rec)
        for c in fn.calls():
            if c.name.endswith("impl i8>::unsigned_abs") or c.name.endswith("impl i8>::abs"):
                g["abs"].append((rec, c.line))
            if c.name.endswith("impl i8>::is_negative") or c.name.endswith("impl i8>::is_positive") or c.name.endswith("impl i8>::signum"):
                g["sign"] = True
        for b, i, pl, rv, ln in fn.assigns():
            if rv[0] == "bin" and rv[1] in ("Lt", "Le", "Gt", "Ge") and str(rv[4]) == "i8":
                ks = [op_const(x) for x in (rv[2], rv[3])]
                if any(k and k.get("k") == "int" and k.get("v") == 0 for k in ks):
                    g["sign"] = True
    for gid, g in sorted(groups.items()):
        for rec, line in g["abs"]:
            r.functions.add(rec["id"])
            r.call_sites += 1
            r.inst({"impl": gid, "fn": rec["id"], "sign_tested_in_impl": g["sign"]}, g["sign"])
            if not g["sign"]:
                r.violate(rec["id"], "scale-magnitude-without-sign", "the power of ten is built from |scale| but nothing in this impl tests the sign of the scale: "
                          "a negative scale is applied like a positive one", rec["file"], line)
    return r


def rule_decfloat(facts):
    """decimal -> float: the unscaled integer and 10^scale do not fit the narrow float types (10^5 is infinity as a Float16, so
    0.5::decimal(10,6)::half was inf/inf = NaN). The kernel has to convert the unscaled integer to Float64, divide there, and narrow
    the quotient."""
    r = RuleResult("C13-DECFLOAT", "the decimal-to-float kernel converts the unscaled integer to Float64 before it narrows to the target float type", floor=1)
    recs = facts.fns_matching(lambda i: "to_primitive::DecimalToFloat<" in i and "CastFunction>::cast::{closure" in i)
    if not recs:
        r.missing_anchor("DecimalToFloat::cast closure")
        return r
    n = 0
    for rec in recs:
        fn = Fn(rec)
        for c in fn.calls():
            if not c.name.endswith("NumCast>::from") and not c.name.endswith("NumCast::from"):
                continue
            o = fn.origin(c.args[0], at=c.bb) if c.args and c.args[0][0] in ("c", "m") else None
            if not o or o[0] != "arg":
                continue        # not the unscaled input value
            n += 1
            tgt = (c.callee.get("args") or ["?"])[0]
            ok = tgt == "f64"
            r.functions.add(rec["id"])
            r.call_sites += 1
            r.inst({"fn": rec["id"], "first_conversion_target": tgt}, ok)
            if not ok:
                r.violate(rec["id"], "unscaled-to-narrow-float", f"the unscaled decimal integer is converted to {tgt} (the target float type) before the division by 10^scale: "
                          "for Float16 both operands overflow to infinity and the result is NaN", rec["file"], c.line)
    if n == 0:
        r.missing_anchor("DecimalToFloat: no NumCast::from on the kernel's input value")
    return r



def rule_floatinf(facts):
    """Narrowing to a float type: `NumCast::from` maps a finite value that is too large for the target to infinity and reports success
    (70000::half, 1e300::double::float were `inf`), while every integer target raises a range error. The generic numeric cast kernel
    therefore has to look at the finiteness of what NumCast produced: a call of is_infinite / is_finite in PrimToPrim::cast or its
    closures."""
    r = RuleResult("C13-FLOATINF", "the generic numeric cast kernel tests the finiteness of the converted value (finite input must not become infinity)", floor=1)
    recs = facts.fns_matching(lambda i: "to_primitive::PrimToPrim<" in i and "CastFunction>::cast" in i)
    if not recs:
        r.missing_anchor("PrimToPrim::cast")
        return r
    root = [x for x in recs if x["id"].endswith("CastFunction>::cast")]
    found = []
    casts = 0
    for rec in recs:
        fn = Fn(rec)
        for c in fn.calls():
            last = c.name.rsplit("::", 1)[-1]
            if last in ("is_infinite", "is_finite"):
                found.append((rec["id"], c.line))
            elif any(w in str(c.args) for w in ("::is_infinite", "::is_finite")):
                found.append((rec["id"], c.line))      # passed as a function item: is_some_and(f64::is_infinite)
            if c.name.endswith("NumCast::from") or c.name.endswith("NumCast>::from"):
                casts += 1
    if casts == 0 or not root:
        r.missing_anchor("PrimToPrim::cast: NumCast::from call")
        return r
    ok = bool(found)
    r.functions.add(root[0]["id"])
    r.inst({"fn": root[0]["id"], "numcast_calls": casts, "finiteness_tests": len(found)}, ok)
    if not ok:
        r.violate(root[0]["id"], "finite-to-infinity", "the kernel accepts whatever NumCast::from returns: a finite value beyond the target float type's range is stored as "
                  "infinity instead of raising a range error", root[0]["file"], root[0]["line"])
    return r


def run(ctx):
    facts = ctx["facts"]
    return [rule_flat(facts), rule_tab(facts), rule_narrow(facts), rule_qsign(facts), rule_rtwords(facts), rule_precchk(facts), rule_scalesign(facts), rule_decfloat(facts), rule_floatinf(facts)]


CLAIM = {
    "text": "Edge-dominance rule on MIR for every cast-collapsing site (guard must be the dropped cast's own Safe flag) and a table "
            "rule over all CastFunctionSet rows (Safe ⊆ lossless pairs computed from type ranges; PrimToPrim storage = announced ids). "
            "These are the structural preconditions of exact-or-error casting that hold or fail independently of data; kernel values "
            "are not statically decidable here. (NARROW) every narrowing numeric cast kernel obtains its result from a checked conversion "
            "(11 kernels that do not are listed as known findings). Plus: cast kernels, formatters and round() never order-compare a signed quotient with zero (a truncated quotient has lost the dividend's sign)."
            " Plus RTWORDS (every unit word the interval formatter prints is accepted by the parser) and PRECCHK (decimal-producing cast kernels write only behind validate_precision; the text parser compares with the precision after the last value-changing step)."
            " Plus SCALESIGN, DECFLOAT and FLOATINF (the generic numeric cast kernel tests the finiteness of the converted value).",
    "note": "trusted: rustc MIR/HIR, the lossless relation coded in rules/c13.py (integer range inclusion, float widening, identity, Null)",
    "technique": "static analysis: MIR edge-dominance (guard provenance) + const-table agreement (rustc_private driver)",
}
