"""C18 — the announced schema is the schema of the rows produced (narrow clause).
  C18-REG  three-way agreement per scalar / aggregate registry row, none of it tied together by the
           type system:  (1) the Signature's return id in the table,  (2) the `return_type` the
           implementation's bind() announces (BindState.return_type),  (3) the output storage type the
           kernel writes (executor's output storage parameter / aggregate Output storage);
           (argument storages are not compared: bind() may legitimately rewrite/cast its inputs.)
           DataTypeId→PhysicalType and Storage→PhysicalType maps are read from the code, not restated.
  C18-ELIDE every conditional cast insertion in binder/planner (UNION branch casts, INSERT/VALUES casts, CASE, subquery
           comparison, decimal comparison) is controlled by inequality of the full DataType / full type-meta, and the cast is on
           the `differs` edge — comparing only DataTypeId would leave a branch producing Decimal(5,1) under an announced (6,2)
Not decided: return types computed dynamically in bind (decimals, lists), which type UNION unification picks."""
import re
from .framework import RuleResult
from .instwalk import InstDB, signature_of, resolve_const_expr, variant_of
from .mir import Fn

EXPLANATION = ("For every scalar and aggregate registry row: the signature's announced return id, the type bind() puts in "
               "BindState.return_type, and the storage type the kernel actually writes (read from the monomorphic executor call reached "
               "by the instantiation walk) must agree. A disagreement "
               "means the planner's schema differs from the arrays produced. Dynamically computed return types are classified `dynamic` "
               "and only the storage family is compared.")
NOT_DECIDED = ["return types computed at bind time (decimal precision/scale, list element types)", "UNION / set-operation type unification",
               "column names", "that DESCRIBE and execution derive from one bind context (C18-SRC not built)"]

# one named symbol + reason per exemption
EXEMPT_OUTPUT = {
    "glaredb_core::functions::aggregate::builtin::first::FirstBinary": "FIRST over Utf8 re-emits an input value byte-for-byte through the binary view (Utf8 and Binary share one buffer layout); bytes stay valid UTF-8",
    "glaredb_core::functions::aggregate::builtin::minmax::MinBinary": "MIN over Utf8 re-emits an input value byte-for-byte through the binary view; bytes stay valid UTF-8",
    "glaredb_core::functions::aggregate::builtin::minmax::MaxBinary": "MAX over Utf8 re-emits an input value byte-for-byte through the binary view; bytes stay valid UTF-8",
}
DT = "glaredb_core::arrays::datatype::DataType"
DTID = "glaredb_core::arrays::datatype::DataTypeId"
EXECUTORS = re.compile(r"glaredb_core::arrays::executor::scalar::\w+::(UnaryExecutor|BinaryExecutor|TernaryExecutor|UniformExecutor)::execute\w*")


def id_to_physical(facts):
    m = {}
    for mt in facts.records("match", "glaredb_core"):
        if mt["fn"] == f"{DT}::physical_type" and DTID in mt["enums"]:
            for arm in mt["arms"]:
                v = arm["pat"]
                if v.get("k") == "v" and arm["body"].get("k") == "path":
                    m[v["def"].rsplit("::", 1)[-1]] = arm["body"]["def"].rsplit("::", 1)[-1]
    return m


def storage_to_physical(facts):
    m = {}
    for c in facts.records("const", "glaredb_core"):
        if c.get("name") == "PHYSICAL_TYPE" and c.get("self_ty") and c["e"].get("k") == "path":
            m[c["self_ty"]] = c["e"]["def"].rsplit("::", 1)[-1]
    return m


def ids_in_tree(e, consts, acc, depth=0):
    """DataTypeId variants mentioned by a const expression tree (following DataType::CONST paths)"""
    if depth > 8:
        return acc
    if isinstance(e, dict):
        if e.get("k") == "path":
            d = e.get("def", "")
            if d.startswith(DTID + "::"):
                acc.add(d.rsplit("::", 1)[-1])
            elif d in consts and depth < 6:
                ids_in_tree(consts[d]["e"], consts, acc, depth + 1)
        for v in e.values():
            ids_in_tree(v, consts, acc, depth + 1)
    elif isinstance(e, list):
        for v in e:
            ids_in_tree(v, consts, acc, depth + 1)
    return acc


_FN_ID = {}


def id_of_datatype_fn(facts, consts, path):
    """DataTypeId a `fn() -> DataType` constructor (DataType::int64 …) always returns, else None"""
    if path in _FN_ID:
        return _FN_ID[path]
    rec = facts.fn(path)
    res = None
    if rec is not None and rec["argc"] == 0:
        ids = set()
        txt = []

        def scan(x):
            if isinstance(x, dict):
                if x.get("k") == "c" and isinstance(x.get("v"), str):
                    txt.append(x["v"])
                for v in x.values():
                    scan(v)
            elif isinstance(x, list):
                if len(x) >= 3 and x[0] == "adt" and x[1] == DTID:
                    ids.add(x[2])
                for v in x:
                    scan(v)
        scan(rec["bbs"])
        for t in txt:
            if t in consts:
                ids_in_tree(consts[t]["e"], consts, ids)
            elif t.startswith(DTID + "::"):
                ids.add(t.rsplit("::", 1)[-1])
        if len(ids) == 1:
            res = ids.pop()
    _FN_ID[path] = res
    return res


def bind_return(facts, consts, db, row):
    """('id', X) | ('dynamic', why) | None  for the return_type bind() announces"""
    b = [m for m in row["methods"] if m["name"] == "bind"]
    rec = db.load(b[0]["inst"]) if b else None
    if rec is None:
        return None
    # delegation: SimpleUnaryAggregate etc. forward bind to an inner implementation
    todo = [rec]
    seen = set()
    while todo:
        rec = todo.pop()
        if rec["key"] in seen:
            continue
        seen.add(rec["key"])
        fn = Fn(rec)
        found = []
        for bb, i, pl, rv, ln in fn.assigns():
            if rv[0] == "agg" and rv[1][0] == "adt" and rv[1][1].endswith("bind_state::BindState") and "return_type" in rv[1][3]:
                k = rv[1][3].index("return_type")
                o = fn.origin(rv[2][k], through_calls=("::clone",))
                found.append(o)
        if not found:
            for k in rec["callees"]:
                if k.endswith(">") and "::bind<" in k:
                    r2 = db.load(k)
                    if r2:
                        todo.append(r2)
            continue
        outs = set()
        for o in found:
            if o[0] == "call":
                nm = o[1].name
                i = id_of_datatype_fn(facts, consts, nm)
                outs.add(("id", i) if i else ("dynamic", nm.rsplit("::", 2)[-2] + "::" + nm.rsplit("::", 1)[-1]))
            elif o[0] == "const":
                v = o[1].get("v")
                ids = ids_in_tree(consts[v]["e"], consts, set()) if isinstance(v, str) and v in consts else set()
                outs.add(("id", ids.pop()) if len(ids) == 1 else ("dynamic", f"const {v}"))
            elif o[0] == "arg" and o[1] == 1:
                flds = [p[1] for p in o[2] if isinstance(p, list) and p[0] == "f"]
                # value of that field in the row's constructor expression
                ids = ids_in_tree(row["args"][1], consts, set()) if len(row["args"]) > 1 else set()
                outs.add(("id", ids.pop()) if len(ids) == 1 else ("dynamic", f"self.{'.'.join(flds)} (constructor gives {sorted(ids)})"))
            else:
                outs.add(("dynamic", f"computed ({o[0]})"))
        if len(outs) == 1:
            return outs.pop()
        return ("dynamic", f"several: {sorted(outs)}")
    return None


def executor_calls(db, row, method="execute"):
    """[(executor, [input storages], output storage, line, file)] from the monomorphic execute kernel"""
    out = []
    ms = [m for m in row["methods"] if m["name"] == method]
    if not ms:
        return out
    root = db.load(ms[0]["inst"])
    if root is None:
        return out
    seen, st = set(), [root]
    while st:
        rec = st.pop()
        if rec["key"] in seen:
            continue
        seen.add(rec["key"])
        for blk in rec["bbs"]:
            t = blk["t"]
            if t[0] == "call" and "def" in t[1]:
                name = t[1].get("res") or t[1]["def"]
                m = EXECUTORS.search(name)
                if m:
                    ga = [a for a in (t[1].get("res_args") or t[1].get("args") or []) if "physical_type::Physical" in a and "closure" not in a]
                    if ga:
                        out.append((m.group(1), ga[:-1], ga[-1], t[6], rec["file"]))
        # follow local helper fns / closures of the same function module, but not into the executors
        for k in rec["callees"]:
            if "::arrays::executor::" in k or k.startswith("const:"):
                continue
            r2 = db.load(k)
            if r2 is not None and ("::functions::" in r2["id"]) and r2["depth"] <= root["depth"] + 3:
                st.append(r2)
    return out


def rule_elide(facts, rule="C18-ELIDE", only=None, floor=10):
    """Binder/planner code that inserts a cast only when `have != need` decides whether the produced arrays carry the announced
    type. Every path on which a type comparison decided to skip the cast must have established equality of the full DataType (id +
    precision/scale/unit/element type) or of the full type meta: comparing DataTypeId, or only one of precision/scale, elides the
    cast between Decimal(6,2) and Decimal(5,1) and the branch then produces arrays whose type differs from the announced schema.
    Path-sensitive (rules/elide.py): `||`/`&&` chains, negations and bool-returning helper functions are followed."""
    from .elide import Elide
    r = RuleResult(rule, "on every path where a type comparison decides to skip a cast insertion, equality of the full DataType (or "
                   "full type meta: every field) has been established", floor=floor)
    el = Elide(facts)
    for rec in facts.all_fns(["glaredb_core"], contains=("expr::cast", "CastExpr")):
        if only and not only(rec["id"]):
            continue
        s = str(rec["bbs"])
        if "expr::cast" not in s and "CastExpr" not in s:
            continue
        fn = Fn(rec)
        for c, paths in el.sites(fn):
            r.functions.add(fn.id)
            r.call_sites += 1
            bad = sorted({el.describe(fs) for fs, ok in paths if not ok})
            r.inst({"fn": fn.id, "line": c.line, "skip_paths": len(paths), "all_establish_full_type_equality": not bad}, not bad)
            for d in bad:
                r.violate(fn.id, "cast-elision:" + d,
                          f"the cast at line {c.line} can be skipped on a path that established {d}; only equality of the full DataType / "
                          "full type meta guarantees the operand already has the announced type (precision and scale, unit, element type)",
                          rec["file"], c.line)
    for f_ in sorted(set(el.capped)):
        r.notes.append(f"state cap reached in {f_}: paths beyond the cap not examined")
    return r


def rule_castbind(facts):
    """A scalar function that delegates its work to a cast kernel (round(decimal, s) rescales with DecimalToDecimal) binds the
    kernel to a (source, target) type pair; the arrays the kernel writes have the *target* type. The function's announced
    return_type therefore has to be that very target value (the same local, or a clone of it) - two separately computed types
    can drift apart (e.g. one of them clamped)."""
    r = RuleResult("C18-CASTBIND", "a function bind that delegates to a cast kernel announces exactly the cast's target type as its return_type", floor=1)
    THRU = ("::clone", "::deref", "::as_ref", "::borrow", "::branch", "::unwrap")
    for rec in facts.all_fns(["glaredb_core"], contains="CastFunction"):
        if "CastFunction" not in str(rec["bbs"]) or "::functions::" not in rec["id"] or "::functions::cast::" in rec["id"] or "::tests::" in rec["id"]:
            continue
        fn = Fn(rec)
        binds = [c for c in fn.calls() if (c.decl.endswith("CastFunction::bind") or c.name.endswith("CastFunction>::bind")) and len(c.args) >= 3]
        if not binds:
            continue
        states = [(b, rv, ln) for b, i, pl, rv, ln in fn.assigns() if rv[0] == "agg" and rv[1][0] == "adt" and rv[1][1].endswith("bind_state::BindState")]
        for c in binds:
            tgt = fn.origin(c.args[2], at=c.bb, through_calls=THRU)
            tkey = (tgt[0], tgt[1] if tgt[0] in ("local", "arg") else (tgt[1].bb if tgt[0] == "call" else None))
            for b, rv, ln in states:
                flds = rv[1][3]
                if "return_type" not in flds:
                    continue
                r.functions.add(fn.id)
                r.call_sites += 1
                ro = fn.origin(rv[2][flds.index("return_type")], at=b, through_calls=THRU)
                rkey = (ro[0], ro[1] if ro[0] in ("local", "arg") else (ro[1].bb if ro[0] == "call" else None))
                ok = tkey == rkey and tkey[1] is not None
                r.inst({"fn": fn.id, "cast_bind_line": c.line, "bind_state_line": ln, "return_type_is_cast_target": ok}, ok)
                if not ok:
                    r.violate(fn.id, "return-type-not-cast-target", f"the cast kernel is bound at line {c.line} to one target type, but the BindState built at line {ln} announces a "
                              "separately computed return_type: the kernel writes arrays of the cast's target type (e.g. another scale) under the announced type",
                              rec["file"], ln)
    return r


def rule_aliasnames(facts):
    """The names a query announces are the user's aliases, one per aliased column. The map from alias to column used for *references* is
    keyed by an identifier that compares case-insensitively, so it cannot hold two aliases that are equal ignoring case
    (`SELECT 1 AS x, 2 AS x` announced `?column?, x`; `SELECT 1 AS "X", 2 AS x` announced the second column as `X`). The renaming
    in SelectList::finalize therefore has to walk a per-column sequence, not that map: the index handed to `column_names.get_mut`
    comes out of a Vec/slice iterator, never a hash-map iterator."""
    r = RuleResult("C18-ALIASNAMES", "output column names are assigned from a per-column alias sequence, not from the deduplicating alias map", floor=1)
    rec = [x for x in facts.fns_matching(lambda i: i.endswith("select_list::SelectList::finalize"))]
    if not rec:
        r.missing_anchor("SelectList::finalize")
        return r
    rec = rec[0]
    fn = Fn(rec)
    r.functions.add(fn.id)
    n = 0
    for c in fn.calls():
        if not c.name.endswith("::get_mut") or len(c.args) < 2:
            continue
        recv = str(fn.origin(c.args[0], at=c.bb, through_calls=("::deref_mut", "::deref")))
        if "column_names" not in recv and "DerefMut" not in recv:
            continue
        o = fn.origin(c.args[1], at=c.bb)
        src = o[1].name if o[0] == "call" else str(o[0])
        n += 1
        from_map = "hash_map" in src or "HashMap" in src or "btree" in src.lower()
        from_seq = ("vec::IntoIter" in src or "slice::Iter" in src or "Enumerate" in src) and not from_map
        r.call_sites += 1
        r.inst({"fn": fn.id, "line": c.line, "index_comes_from": src.split(" as ")[0].lstrip("<")}, from_seq)
        if not from_seq:
            r.violate(fn.id, "names-from-alias-map", "the output column names are assigned while iterating the alias map: aliases that are equal ignoring case collapse into "
                      "one entry and the other column keeps its generated name", rec["file"], c.line)
    if n == 0:
        r.missing_anchor("SelectList::finalize: assignment of output column names")
    return r


def run(ctx):
    facts = ctx["facts"]
    consts = {c["id"]: c for c in facts.records("const")}
    db = InstDB(facts)
    id2p = id_to_physical(facts)
    s2p = storage_to_physical(facts)
    impls = facts.records("impl", "glaredb_core")
    res = []
    r = RuleResult("C18-REG", "signature return id = bind()'s return_type = storage written by the kernel", floor=300)
    if len(id2p) < 20 or len(s2p) < 15:
        r.missing_anchor("DataType::physical_type match / ScalarStorage::PHYSICAL_TYPE consts")
        return [r]
    rows = [x for x in facts.records("row", "glaredb_core") if "RawScalarFunction" in x["ctor"] or "RawAggregateFunction" in x["ctor"]]
    dyn = 0
    for row in rows:
        sig = signature_of(row, consts)
        name = f"{row['const'].rsplit('::', 1)[-1]}#{row['ord']}"
        if sig is None or sig[2] is None:
            r.inst({"row": name, "unreadable": True}, False)
            r.violate(row["const"], f"row#{row['ord']}", "registry row signature not readable (failing closed)", row["file"], row["line"])
            continue
        args, variadic, ret = sig
        problems = []
        # (2) bind
        br = bind_return(facts, consts, db, row)
        if br is None:
            bdesc = "unknown"
        elif br[0] == "id":
            bdesc = br[1]
            if ret not in ("Any", "List", "Struct", "Table") and br[1] != ret:
                problems.append(("bind-return", f"signature announces {ret} but bind() sets return_type {br[1]}"))
        else:
            bdesc = "dynamic: " + br[1]
            dyn += 1
        # (3) kernel storage
        kinds = []
        if "RawScalarFunction" in row["ctor"]:
            for ex, ins, outst, line, file in executor_calls(db, row):
                r.call_sites += 1
                kinds.append(outst.rsplit("::", 1)[-1])
                want = id2p.get(ret)
                got = s2p.get(outst)
                if want and got and want != got and ret not in ("Any",):
                    problems.append(("output-storage", f"signature returns {ret} (physical {want}) but the kernel writes {outst.rsplit('::',1)[-1]} (physical {got})"))
        else:
            # aggregates: Output/Input assoc types of the Unary/BinaryAggregate impl of the inner type
            m = re.search(r"Simple(?:Unary|Binary)Aggregate<(.+)>$", row["impl_ty"])
            inner = m.group(1) if m else None
            if inner:
                for im in impls:
                    if im["self_ty"].split("<")[0] == inner.split("<")[0] and im.get("trait", "").endswith(("UnaryAggregate", "BinaryAggregate")):
                        at = {i["name"]: i.get("ty") for i in im["items"] if i["kind"] == "Type"}
                        outst = at.get("Output")
                        if outst and outst in s2p:
                            kinds.append(outst.rsplit("::", 1)[-1])
                            want = id2p.get(ret)
                            if want and s2p[outst] != want and ret != "Any":
                                if inner in EXEMPT_OUTPUT and ret == "Utf8" and s2p[outst] == "Binary":
                                    r.exempt(inner, EXEMPT_OUTPUT[inner])
                                    continue
                                problems.append(("output-storage", f"signature returns {ret} (physical {want}) but the aggregate's Output storage is {outst.rsplit('::',1)[-1]}"))
        r.inst({"row": name, "sig": [args, ret], "bind": bdesc, "kernel_out": sorted(set(kinds))}, not problems)
        for c, why in problems:
            r.violate(row["const"] + f"#{row['ord']}", c, why + f" [{row['impl_ty'].replace('glaredb_core::', '')}]", row["file"], row["line"])
    r.notes.append(f"{dyn} rows compute their return type in bind (dynamic): only the storage family is compared for them")
    res.append(r)
    res.append(rule_elide(facts))
    res.append(rule_castbind(facts))
    from .c02 import rule_deadrule
    res.append(rule_deadrule(facts, rule="C18-DEADRULE"))
    res.append(rule_aliasnames(facts))
    return res


CLAIM = {
    "text": "Table agreement over all scalar and aggregate registry rows between three places the compiler does not relate: signature "
            "ids (HIR const tables), bind()'s return_type (MIR provenance in the instantiated bind body) and the executor's storage type "
            "parameters (monomorphic call sites from the instantiation walk). Decides schema/array type agreement per row for all inputs; "
            "dynamically computed types are not decided. Plus a guard rule: every conditional cast insertion in binder/planner (UNION branches, "
            "INSERT/VALUES, CASE, subquery and decimal comparisons) is controlled by inequality of the full DataType, so a branch cannot keep "
            "a type that differs from the announced one in precision/scale/unit. Plus: a function bind that delegates to a cast kernel announces exactly the cast's target type value as its return_type."
            " Plus DEADRULE (shared with C02): the disabled RemoveRedundantGroups rewrite, which mistypes shifted group columns, is not applied."
            " Plus ALIASNAMES: output column names are assigned from a per-column alias sequence, not from the case-insensitive alias map.",
    "note": "trusted: rustc HIR/MIR; id→physical and storage→physical maps are extracted from DataType::physical_type and "
            "ScalarStorage::PHYSICAL_TYPE in the code itself",
    "technique": "static analysis: const-table / MIR three-way agreement via registry instantiation walk (rustc_private driver)",
}
