"""C06 — joins return exactly the defined pairs and unmatched rows (narrow clause).
  C06-PART  sibling agreement of the JoinType case analyses that must coincide:
            * output-column role: PhysicalHashJoin::new and PhysicalNestedLoopJoin::new partition the join types
              identically ({LeftSemi,LeftAnti} | {Inner,Left,Right,Full} | {LeftMark}), and JoinType::output_refs'
              "left side only" group is the union of the semi/anti/mark groups
            * left-match tracking / drain role: needs_drain, needs_match_column (hash join) and the nested-loop join's
              finalize sites select the same set {Left, LeftSemi, LeftAnti, Full, LeftMark}
  C06-FLAGS per-batch right-match flags: (a) hash join state Vec<bool>::resize(n,false) is dominated by clear() of the same vector;
            (b) nested-loop join: MatchTracker::right_outer_result is followed by reset() on every path to a successful return
Not decided: which pairs are produced, NULL-key semantics, chains longer than a batch."""
from .framework import RuleResult

EXPLANATION = ("HIR match tables over JoinType (resolved through typeck) are extracted from the hash join, the nested-loop join and the "
               "logical join; sites with the same role must induce the same partition of the seven join types. A disagreement means two "
               "join algorithms (or planner and executor) treat a join type differently — e.g. output columns or unmatched-row draining. "
               "Which row pairs are produced is not decided.")
NOT_DECIDED = ["the pairs produced by probing", "NULL join keys", "hash chains longer than a batch", "match-tracker bit updates (values)"]

JT = "glaredb_core::logical::logical_join::JoinType"
OPS = "glaredb_core::execution::operators::"
NLJ = f"<{OPS}nested_loop_join::PhysicalNestedLoopJoin as {OPS}"
OUTPUT_ROLE = [(f"{OPS}hash_join::PhysicalHashJoin::new", 0), (f"{OPS}nested_loop_join::PhysicalNestedLoopJoin::new", 1)]
DRAIN_ROLE = [(f"{OPS}hash_join::hash_table::drain::needs_drain", 0), (f"{OPS}hash_join::hash_table::needs_match_column", 0),
              (f"{NLJ}PushOperator>::poll_finalize_push", 0), (f"{NLJ}ExecuteOperator>::poll_finalize_execute", 0)]
ALL = {"Left", "Right", "Inner", "Full", "LeftSemi", "LeftAnti", "LeftMark"}


def _variants(p, acc):
    if p.get("k") == "v" and p.get("def", "").startswith(JT + "::"):
        acc.add(p["def"].rsplit("::", 1)[-1])
    for s in p.get("sub", []):
        if isinstance(s, dict):
            _variants(s, acc)
        elif isinstance(s, list):
            _variants(s[1], acc)
    return acc


def partition(m):
    """list of frozensets: variants per arm (wildcard = all variants not named earlier)"""
    seen, parts = set(), []
    for arm in m["arms"]:
        vs = _variants(arm["pat"], set())
        if not vs and arm["pat"].get("k") in ("_",):
            vs = ALL - seen
        vs = vs - seen
        seen |= vs
        if vs:
            parts.append((frozenset(vs), arm))
    return parts


def _site(by_fn, fn, ordn):
    ms = sorted(by_fn.get(fn, []), key=lambda m: m["line"])
    return ms[ordn] if len(ms) > ordn else None


def true_set(m):
    for vs, arm in partition(m):
        b = arm["body"]
        if b.get("k") == "lit" and b.get("v") is True:
            return set(vs)
    return None


def run(ctx):
    facts = ctx["facts"]
    by_fn = {}
    for m in facts.records("match", "glaredb_core"):
        if JT in m["enums"]:
            by_fn.setdefault(m["fn"], []).append(m)
    r = RuleResult("C06-PART", "sites with the same role partition JoinType identically", floor=6)
    # output-column role
    parts = []
    for fn, o in OUTPUT_ROLE:
        m = _site(by_fn, fn, o)
        if m is None:
            r.missing_anchor(f"JoinType match #{o} in {fn}")
            continue
        p = frozenset(vs for vs, _ in partition(m))
        parts.append((fn, m, p))
        r.inst({"role": "output-columns", "fn": fn, "partition": sorted(sorted(x) for x in p)})
    if len(parts) == 2 and parts[0][2] != parts[1][2]:
        r.discharged -= 1
        r.violate(parts[1][0], "output-partition", f"nested-loop join groups join types {sorted(sorted(x) for x in parts[1][2])} for its output columns, the hash join "
                  f"{sorted(sorted(x) for x in parts[0][2])}: the two algorithms produce different schemas/rows for some join type", parts[1][1]["file"], parts[1][1]["line"])
    # logical output refs: left-only group = semi ∪ anti ∪ mark groups of the physical operators
    m = _site(by_fn, JT + "::output_refs", 0)
    if m is None:
        r.missing_anchor("JoinType::output_refs match")
    elif parts:
        left_only = partition(m)[0][0]
        phys_left_only = set().union(*[vs for vs in parts[0][2] if vs & {"LeftSemi", "LeftAnti", "LeftMark"}])
        ok = set(left_only) == phys_left_only
        r.inst({"role": "output-columns", "fn": JT + "::output_refs", "left_only_group": sorted(left_only)}, ok)
        if not ok:
            r.violate(JT + "::output_refs", "left-only-group", f"the logical join exposes only left columns for {sorted(left_only)} but the physical joins for {sorted(phys_left_only)}",
                      m["file"], m["line"])
    # drain role
    sets = []
    for fn, o in DRAIN_ROLE:
        m = _site(by_fn, fn, o)
        if m is None:
            r.missing_anchor(f"JoinType match #{o} in {fn}")
            continue
        ts = true_set(m)
        if ts is None:
            r.missing_anchor(f"boolean JoinType classification in {fn}")
            continue
        sets.append((fn, m, ts))
    ref = sets[0][2] if sets else None
    for fn, m, ts in sets:
        ok = ts == ref
        r.inst({"role": "left-match tracking / drain", "fn": fn, "set": sorted(ts)}, ok)
        if not ok:
            r.violate(fn, "drain-set", f"selects {sorted(ts)} for left-side match tracking/draining, the hash join's needs_drain selects {sorted(ref)}: unmatched left rows "
                      "are dropped or emitted twice for the differing join type", m["file"], m["line"])
    # informational: all other sites
    role_fns = {f for f, _ in OUTPUT_ROLE + DRAIN_ROLE} | {JT + "::output_refs"}
    other = sum(len(v) for k, v in by_fn.items() if k not in role_fns)
    r.notes.append(f"{other} further JoinType case analyses are extracted but not in a role table (information only)")
    return [r, rule_flags(facts), rule_optab(facts), rule_condkeep(facts), rule_nullkey(facts), rule_eqidx(facts), rule_drainloop(facts)]


def rule_nullkey(facts):
    """Join keys may be compared with `=` (NULL never matches) or with IS [NOT] DISTINCT FROM (NULL is an ordinary operand).
    Whether a NULL key can have a partner is therefore a property of the condition's operator, decided by the row matcher.
    Code of the hash join that looks at the validity of an array and is not the matcher itself must have consulted the
    operator: pruning build/probe rows on NULL-ness alone drops the pairs a null-safe condition admits (and makes the hash join
    disagree with the nested-loop join)."""
    from .mir import Fn
    r = RuleResult("C06-NULLKEY", "hash-join code probes array validity only behind a test of the condition's ComparisonOperator (NULL keys are matched "
                   "or rejected per operator, never wholesale)", floor=25)
    HJ = OPS + "hash_join::"
    nfn = 0
    for rec in facts.fns_matching(lambda i: i.startswith(HJ) or i.startswith("<" + HJ)):
        if "::tests::" in rec["id"] or "::tests::" in rec.get("root", ""):
            continue
        nfn += 1
        fn = Fn(rec)
        for c in fn.calls():
            if "validity::Validity::" not in c.name or c.name.rsplit("::", 1)[-1] not in ("is_valid", "all_valid", "null_count", "count_valid"):
                continue
            # the verdict only feeds a debug assertion (one edge of the switch on it panics out of `debug_assert!`)
            if c.target is not None and fn.term(c.target)[0] == "switch":
                outs = [fn.term(x) for x in fn.succ[c.target]]
                if any(t_[0] == "call" and "panicking" in (t_[1].get("def") or "") and any("debug_assert" in str(e) for e in (t_[8] if len(t_) > 8 else []))
                       for t_ in outs):
                    continue
            # receiver: the validity of an Array (not a freshly built mask of the operator's own)
            o = fn.origin(c.args[0], at=c.bb) if c.args else None
            proj = o[2] if o and len(o) > 2 and isinstance(o[2], list) else []
            if not any(isinstance(p_, list) and p_[0] == "f" and p_[1] == "validity" and p_[2].endswith("arrays::array::Array") for p_ in proj):
                continue
            r.functions.add(fn.id)
            r.call_sites += 1
            guarded = False
            chain = [fn]
            root = rec.get("root")
            if root and facts.fn(root):
                chain.append(Fn(facts.fn(root)))
            for f_ in chain:
                for x in f_.calls():
                    if (x.name.endswith("::eq") or x.name.endswith("::ne")) and any("ComparisonOperator" in a for a in (x.gargs or []) + [x.callee.get("self", "")]):
                        if f_ is not fn or any(f_.edge_dominates(b, t_, c.bb) for b in [x.target] if b is not None for t_ in f_.succ[b]):
                            guarded = True
            r.inst({"fn": fn.id, "line": c.line, "probe": c.name.rsplit("::", 1)[-1], "behind_operator_test": guarded}, guarded)
            if not guarded:
                r.violate(fn.id, f"validity-probe-without-operator:{c.name.rsplit('::', 1)[-1]}",
                          f"`{c.name.rsplit('::', 1)[-1]}` on an input array's validity at line {c.line} decides about join rows without a test of the "
                          "condition's ComparisonOperator: a NULL key is a valid operand of IS [NOT] DISTINCT FROM, so rows that have a partner are dropped",
                          rec["file"], c.line)
    for _ in range(nfn):
        r.instances.append(None) if False else None
    r.notes.append(f"{nfn} hash-join functions scanned; validity probes found: {r.call_sites}")
    # the rule's expected count on a correct tree is zero probes: the anchor is the scanned-function count
    r.floor = 0
    if nfn < 25:
        r.missing_anchor(f"hash join module functions (found {nfn}, expected at least 25)")
    return r


def rule_eqidx(facts):
    """The join hash table hashes the *equality* keys; `equality_columns` lists them by their position among all join keys (equalities and
    inequalities share one key layout). The recorded position therefore has to be the running count of all keys - the length of a vector
    that gets one push per condition - not the count of equalities so far: with an inequality written first, the two differ and build and
    probe side hash a different column than the one compared for equality."""
    from .mir import Fn
    r = RuleResult("C06-EQIDX", "a position pushed into a conditionally filled index list of the join hash table is the length of a vector that is pushed once per "
                   "loop iteration (the position among all keys), never the list's own length", floor=1)
    HJ = OPS + "hash_join::"
    for rec in facts.fns_matching(lambda i: i.startswith(HJ) and "::tests::" not in i):
        if "Vec::<T, A>::push" not in str(rec["bbs"]) or "Vec::<T, A>::len" not in str(rec["bbs"]):
            continue
        fn = Fn(rec)
        pushes = [c for c in fn.calls() if c.name.endswith("Vec::<T, A>::push") and len(c.args) == 2]

        def vec_root(op, at):
            o = fn.origin(op, at=at)
            if o[0] in ("local", "arg"):
                return (o[0], o[1])
            if o[0] == "call":
                return ("call", o[1].bb)
            return None

        def vname(root):
            if root[0] == "call":
                c0 = next((x for x in fn.calls() if x.bb == root[1]), None)
                return fn.local_name(c0.dst[0]) if c0 is not None else "?"
            return fn.local_name(root[1])
        for c in pushes:
            vo = fn.origin(c.args[1], at=c.bb)
            if not (vo[0] == "call" and vo[1].name.endswith("Vec::<T, A>::len")):
                continue
            dst = vec_root(c.args[0], c.bb)
            src = vec_root(vo[1].args[0], vo[1].bb)
            if dst is None or src is None:
                continue
            # only pushes inside a loop, under a condition (not executed on every iteration)
            loop = {x for x in fn.reachable_from(c.bb) if c.bb in fn.reachable_from(x)}
            if not loop:
                continue
            r.functions.add(fn.id)
            r.call_sites += 1
            # `src` must be pushed on every iteration: some push block of src lies on every cycle through the loop header region,
            # i.e. removing src's push blocks breaks every cycle through c.bb
            src_push = [p.bb for p in pushes if vec_root(p.args[0], p.bb) == src]
            every_iter = bool(src_push) and c.bb not in {x for x in fn.reachable_from(c.target, avoid=src_push)} if c.target is not None else False
            ok = src != dst and every_iter
            r.inst({"fn": fn.id, "line": c.line, "list": vname(dst), "position_from": vname(src), "source_pushed_every_iteration": every_iter}, ok)
            if not ok:
                why = "its own length" if src == dst else f"the length of `{vname(src)}`, which is not extended on every iteration"
                r.violate(fn.id, f"filtered-position:{vname(dst)}", f"`{vname(dst)}` records {why} (line {c.line}): that is a position in the filtered list, not "
                          "among all join keys, so a different key column is hashed than the one compared for equality when an inequality comes first", rec["file"], c.line)
    return r



def rule_drainloop(facts):
    from .mir import Fn
    """The outer-join / semi-join drain hands out the build-side rows block by block. Its consumer (PhysicalHashJoin::poll_execute) reads
    "0 rows" as "this partition is exhausted". A loader that returns after a block that contributed nothing therefore ends the drain
    early and the unmatched (LEFT) or matched (SEMI/MARK) rows of all later blocks are lost. Decided on `load_row_ptrs`: the statement
    that advances the block cursor can reach the cursor's bound test again (the loader keeps going until the output is full or no block
    is left) - i.e. it lies on a cycle with the comparison of `curr_block_idx` against the number of blocks."""
    r = RuleResult("C06-DRAINLOOP", "the hash-join drain keeps loading blocks until the output is full or no block is left", floor=1)
    recs = facts.fns_matching(lambda i: "hash_table::drain::HashTablePartitionDrainState" in i and i.endswith("::load_row_ptrs"))
    if not recs:
        r.missing_anchor("HashTablePartitionDrainState::load_row_ptrs")
        return r
    rec = recs[0]
    fn = Fn(rec)
    r.functions.add(fn.id)
    adv, cmp_ = [], []
    for b, i, pl, rv, ln in fn.assigns():
        if any(isinstance(p_, list) and p_[0] == "f" and p_[1] == "curr_block_idx" for p_ in (pl[1] if len(pl) > 1 else [])):
            adv.append((b, ln))
        if rv[0] == "bin" and rv[1] in ("Ge", "Lt", "Gt", "Le"):
            if "curr_block_idx" in str([fn.origin(x, at=b) for x in rv[2:4] if x[0] in ("c", "m")]):
                cmp_.append((b, ln))
    if not adv or not cmp_:
        r.missing_anchor("load_row_ptrs: block cursor advance / bound comparison")
        return r
    for b, ln in adv:
        ok = any(cb in fn.reachable_from(b) for cb, _ in cmp_)
        r.inst({"fn": fn.id, "advance_line": ln, "bound_test_reachable_again": ok}, ok)
        if not ok:
            r.violate(fn.id, "drain-one-block-per-call", f"after advancing the block cursor (line {ln}) the loader returns without testing for further blocks: a block with "
                      "nothing to emit yields 0 rows, which the join operator takes for the end of the drain", rec["file"], ln)
    return r

CLAIM = {
    "text": "Sibling-agreement rule over HIR match tables: the hash join, nested-loop join and logical join must partition the seven JoinType "
            "variants identically at sites with the same role (output columns; left-match tracking/drain). Agreement of sibling "
            "implementations is decidable from code shape for all inputs; which pairs a join produces is not. Plus a pairing rule for the "
            "per-batch right-match flags (cleared before reuse in the hash join, reset after the flush in the nested-loop join). Plus a NULL-key rule: hash-join code outside the row matcher may look at an input array's validity only behind a test of the condition's ComparisonOperator (NULL is an ordinary operand of IS [NOT] DISTINCT FROM). Plus: a position recorded in the hash table's equality-key list is the running count of all join keys, not of the equalities."
            " Plus DRAINLOOP: the drain loader advances its block cursor on a cycle with the bound test (it never returns an empty batch while blocks are left).",
    "note": "trusted: rustc HIR + typeck resolution of patterns; the role table in rules/c06.py (sites confirmed by reading)",
    "technique": "static analysis: sibling agreement over HIR match tables (rustc_private driver)",
}


def rule_flags(facts, rule="C06-FLAGS"):
    """per-batch match flags. A right (probe-side) batch gets one flag per row; rows whose flag is still false after the batch
    was fully probed are emitted NULL-padded. The flag vectors live in partition state and are reused for the next batch, so
      (a) hash join: a `Vec<bool>::resize(n, false)` of a join state field (which keeps old elements) is dominated by a
          `clear()` of the same vector in the same function;
      (b) nested-loop join: every path from MatchTracker::right_outer_result (flush for this batch) to a successful return
          passes MatchTracker::reset on the same tracker."""
    from .mir import Fn, op_const
    r = RuleResult(rule, "per-batch right-match flags are cleared before they are reused for the next batch", floor=2)

    def place_key(fn, op, at):
        o = fn.origin(op, at=at, through_calls=("DerefMut>::deref_mut", "Deref>::deref"))
        proj = o[2] if len(o) > 2 and isinstance(o[2], list) else []
        return (o[0], o[1] if o[0] in ("arg", "local") else None, tuple(pp[1] for pp in proj if isinstance(pp, list) and pp[0] == "f"))

    n_a = 0
    for rec in facts.all_fns(["glaredb_core"], contains=("operators::hash_join", "operators::nested_loop_join")):
        if "operators::hash_join" not in rec["id"] and "operators::nested_loop_join" not in rec["id"]:
            continue
        s = str(rec["bbs"])
        if "resize" in s:
            fn = Fn(rec)
            for c in fn.calls():
                if not c.name.endswith("Vec::<T, A>::resize"):
                    continue
                ga = c.callee.get("res_args") or c.callee.get("args") or []
                if not ga or ga[0] != "bool" or len(c.args) < 3:
                    continue
                k = op_const(c.args[2])
                if not k or k.get("v") not in (0, False, "false"):
                    continue
                key = place_key(fn, c.args[0], c.bb)
                if not key[2]:
                    continue          # a fresh local vector
                if fn.id.endswith("MatchTracker::ensure_initialized"):
                    # documented accumulate-across-calls API; its obligation is clause (b) at the call sites
                    r.exempt(fn.id, "idempotent initialisation that deliberately keeps matches of the current right batch; the batch switch is checked at "
                                    "the callers (clause b: right_outer_result → reset)")
                    continue
                n_a += 1
                r.functions.add(fn.id)
                r.call_sites += 1
                clears = [x for x in fn.calls() if (x.name.endswith("Vec::<T, A>::clear") or x.name.endswith("]>::fill")) and
                          fn.dominates(x.bb, c.bb) and place_key(fn, x.args[0], x.bb) == key]
                ok = bool(clears)
                r.inst({"clause": "a", "fn": fn.id, "vector": ".".join(key[2]), "line": c.line, "cleared_first": ok}, ok)
                if not ok:
                    r.violate(fn.id, "resize-without-clear:" + key[2][-1], f"`{'.'.join(key[2])}.resize(n, false)` keeps the flags of the previous batch "
                              "(resize only initialises new slots) and no clear() precedes it: after a fully matched batch, unmatched rows of the next "
                              "batch are treated as matched and never emitted", rec["file"], c.line)
        if "right_outer_result" in s:
            fn = Fn(rec)
            flushes = [c for c in fn.calls() if c.name.endswith("MatchTracker::right_outer_result")]
            resets = [c for c in fn.calls() if c.name.endswith("MatchTracker::reset")]
            err = {c.bb for c in fn.calls() if c.decl.endswith("FromResidual::from_residual")}
            for c in flushes:
                r.functions.add(fn.id)
                r.call_sites += 1
                key = place_key(fn, c.args[0], c.bb)
                rb = {x.bb for x in resets if place_key(fn, x.args[0], x.bb) == key}
                esc = (fn.reachable_from(c.target, avoid=rb | err) & set(fn.exits)) if c.target is not None else set()
                ok = bool(rb) and not esc
                r.inst({"clause": "b", "fn": fn.id, "tracker": ".".join(key[2]), "line": c.line, "reset_on_all_paths": ok}, ok)
                if not ok:
                    r.violate(fn.id, "flush-without-reset:" + (key[2][-1] if key[2] else "tracker"), "after the unmatched right rows of this batch are flushed "
                              "the tracker is not reset on every path to a successful return: the next right batch inherits this batch's match flags",
                              rec["file"], c.line)
    if n_a == 0:
        r.missing_anchor("Vec<bool>::resize(n, false) of a join state field (hash join right_matches)")
    return r


# ---------------------------------------------------------------------------------------------
CO = "glaredb_core::expr::comparison_expr::ComparisonOperator"
# a OP b  ≡  b FLIP(OP) a          ¬(a OP b)  ≡  a NEG(OP) b      (IS [NOT] DISTINCT FROM is symmetric in its operands)
FLIP = {"Eq": "Eq", "NotEq": "NotEq", "Lt": "Gt", "LtEq": "GtEq", "Gt": "Lt", "GtEq": "LtEq",
        "IsDistinctFrom": "IsDistinctFrom", "IsNotDistinctFrom": "IsNotDistinctFrom"}
NEG = {"Eq": "NotEq", "NotEq": "Eq", "Lt": "GtEq", "LtEq": "Gt", "Gt": "LtEq", "GtEq": "Lt",
       "IsDistinctFrom": "IsNotDistinctFrom", "IsNotDistinctFrom": "IsDistinctFrom"}


def _op_table(m):
    """variant -> variant from a `match self { V => W, … }` table, None when an arm is not of that shape"""
    tab = {}
    for arm in m["arms"]:
        pats = []

        def walk(p):
            if p.get("k") == "v" and p.get("def", "").startswith(CO + "::"):
                pats.append(p["def"].rsplit("::", 1)[-1])
            for x in p.get("sub", []):
                walk(x if isinstance(x, dict) else x[1])
        walk(arm["pat"])
        body = arm["body"]
        if not pats or body.get("k") != "path" or not body.get("def", "").startswith(CO + "::"):
            return None
        for v in pats:
            tab[v] = body["def"].rsplit("::", 1)[-1]
    return tab


def rule_optab(facts):
    r = RuleResult("C06-OPTAB", "ComparisonOperator::flip / negate are the operand-swap and the logical-complement tables of the eight comparison "
                   "operators (used when a join condition is written right-table-first and when NOT is pushed into a comparison)", floor=16)
    for name, spec, why in (("flip", FLIP, "a join condition whose sides are swapped is evaluated with the wrong operator: the join returns other pairs"),
                            ("negate", NEG, "NOT (a op b) is rewritten to a different predicate")):
        ms = [m for m in facts.records("match", "glaredb_core") if m["fn"] == f"{CO}::{name}"]
        if not ms:
            r.missing_anchor(f"{CO}::{name} match table")
            continue
        tab = _op_table(ms[0])
        if tab is None or set(tab) != set(spec):
            r.missing_anchor(f"{CO}::{name}: match arms are not variant → variant for all eight operators")
            continue
        r.functions.add(ms[0]["fn"])
        for v in sorted(spec):
            ok = tab[v] == spec[v]
            r.inst({"fn": name, "op": v, "maps_to": tab[v]}, ok)
            if not ok:
                r.violate(ms[0]["fn"], f"{name}:{v}", f"{name}({v}) = {tab[v]}, must be {spec[v]}: {why}", ms[0]["file"], ms[0]["line"])
    return r


def rule_condkeep(facts):
    from .mir import Fn
    r = RuleResult("C06-CONDKEEP", "JoinConditionExtractor::extract: every conjunct of the ON clause ends up in one of the output lists "
                   "(comparisons / arbitrary / left_filter / right_filter) on every path through the loop body — no conjunct is dropped", floor=1)
    recs = facts.fns_matching(lambda i: "condition_extractor::JoinConditionExtractor" in i and i.endswith("::extract"))
    if not recs:
        r.missing_anchor("JoinConditionExtractor::extract")
        return r
    rec = recs[0]
    fn = Fn(rec)
    r.functions.add(fn.id)
    sides = [c for c in fn.calls() if c.name.endswith("ExprJoinSide::try_from_expr")]
    nexts = [c for c in fn.calls() if c.name.endswith("as std::iter::Iterator>::next")]
    loop = None
    for n in nexts:
        body = fn.reach(n.target, avoid_blocks=[n.bb], threaded=False) if n.target is not None else set()
        if any(c.bb in body for c in sides) and n.bb in fn.reach(n.target, threaded=False):
            loop = n
    if loop is None:
        r.missing_anchor("loop over the split conjuncts in extract")
        return r
    pushes = {c.bb for c in fn.calls() if c.name.endswith("Vec::<T, A>::push") or c.name.endswith("Vec::<T, A>::extend")}
    r.call_sites = len(pushes)
    # blocks reachable from the loop body entry without passing a push; the loop head must not be among them
    free = fn.reach(loop.target, avoid_blocks=list(pushes), threaded=False)
    # the first step (loop.target) is the Option switch; the None edge leaves the loop — only paths that come *back* to next() count
    back = [b for b in free if b != loop.target and loop.bb in fn.succ_of_term(fn.term(b)) and b != loop.bb]
    ok = not back
    r.inst({"fn": fn.id, "loop_line": loop.line, "pushes": len(pushes), "path_back_to_loop_head_without_push": bool(back)}, ok)
    if not ok:
        ln = fn.term(back[0])[-1] if isinstance(fn.term(back[0])[-1], int) else loop.line
        r.violate(fn.id, "conjunct-dropped", "a path through the loop body returns to the next conjunct without storing the current one in any output list: "
                  "that ON-clause conjunct is silently dropped and the join returns rows that do not satisfy it", rec["file"], ln)
    return r
