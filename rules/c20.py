"""C20 — strings are Unicode-correct; LIKE rewrites are equivalent (narrow clauses).
  C20-IDX   in the string scalar functions, byte positions used to slice/split/truncate `str`/`String`
            never derive from SQL integer arguments (or char counts) through casts/arithmetic — they must
            come from char-boundary APIs (char_indices, find, len, …)
  C20-LIKE  every LIKE-rewrite classifier call is guarded by an escape-character test (or the classifier
            itself scans for the escape), so patterns containing `\\` keep the general matcher
Not decided: what each function returns."""
from .framework import RuleResult
from .mir import Fn, op_const, switch_edges, taint, operand_locals
import re

EXPLANATION = ("Decides (a) a provenance/taint rule on MIR of all string scalar functions (including closures): no SQL-integer-derived "
               "value reaches a `str` slicing/splitting/truncating primitive, which would panic inside a multi-byte character; "
               "(b) a guard rule on the LIKE rewrite: classifier calls are dominated by the no-escape edge. Necessary conditions "
               "for Unicode correctness and for the LIKE rewrites to be equivalences; function results themselves are not decided.")
NOT_DECIDED = ["the value each string function returns", "regex translation of LIKE patterns", "collation"]

STR_MOD = "glaredb_core::functions::scalar::builtin::string::"
LIKE_MOD = "glaredb_core::optimizer::expr_rewrite::like::"
INT_TYS = {"i8", "i16", "i32", "i64", "i128", "u8", "u16", "u32", "u64", "u128", "isize"}

SINKS = [
    ("std::ops::Index::index", "str-index"), ("std::ops::IndexMut::index_mut", "str-index"),
    ("core::str::<impl str>::split_at", "split_at"), ("core::str::<impl str>::split_at_mut", "split_at"),
    ("alloc::string::String::truncate", "truncate"), ("std::string::String::truncate", "truncate"),
    ("String::drain", "drain"), ("String::replace_range", "replace_range"), ("String::insert", "insert"),
    ("String::split_off", "split_off"),
    ("core::str::<impl str>::get_unchecked", "get_unchecked"), ("core::str::<impl str>::is_char_boundary", None),
]


def _is_str_recv(fn, c):
    s = c.callee.get("self") or c.callee.get("implself") or ""
    if s in ("str", "std::string::String", "alloc::string::String", "String"):
        return True
    if c.args:
        o = c.args[0]
        if o[0] in ("c", "m"):
            ty = fn.locals[o[1][0]]
            return ty.replace("&mut ", "&").lstrip("&") in ("str", "std::string::String")
    return False


def rule_idx(facts):
    r = RuleResult("C20-IDX", "byte indices into str/String never derive from SQL integers or char counts", floor=5)
    recs = facts.fns_matching(lambda i: "glaredb_core::functions::" in i)
    for rec in recs:
        fn = Fn(rec)
        sinks = []
        for c in fn.calls():
            for pat, kind in SINKS:
                if kind and (c.decl == pat or c.name.endswith(pat) or pat in c.name) and _is_str_recv(fn, c):
                    sinks.append((c, kind))
                    break
        if not sinks:
            continue
        r.functions.add(fn.id)
        # seeds: integer-typed parameters (by value or by reference), char counts
        seeds = set()
        for l in range(1, fn.argc + 1):
            ty = fn.locals[l].replace("&mut ", "").replace("&", "")
            if ty in INT_TYS:
                seeds.add(l)
        for c in fn.calls():
            if c.name.endswith("Iterator::count") or c.decl.endswith("Iterator::count"):
                seeds.add(c.dst[0])
        # closures see their integer params as args too (handled above since closures are fns)
        tainted = taint(fn, seeds)
        for c, kind in sinks:
            r.call_sites += 1
            idx_ops = c.args[1:]
            bad = operand_locals(idx_ops, set()) & tainted
            ok = not bad
            r.inst({"fn": fn.id, "sink": kind, "line": c.line, "index_from_sql_integer": not ok}, ok)
            if not ok:
                names = sorted(fn.local_name(l) for l in bad)
                r.violate(fn.id, f"{kind}", f"byte position passed to {kind} derives from an integer argument / char count ({', '.join(names)}) "
                          "instead of a char-boundary API: panics inside a multi-byte character (e.g. lpad('héllo', 2, 'x'))",
                          rec["file"], c.line)
    return r


def rule_like(facts):
    r = RuleResult("C20-LIKE", "LIKE rewrite classifiers only run on patterns without the escape character", floor=4)
    classifiers = {}
    for rec in facts.fns_matching(lambda i: i.startswith(LIKE_MOD) and "{closure" not in i and "::" not in i[len(LIKE_MOD):]):
        if rec["locals"][0] == "bool" and rec["argc"] == 1 and rec["locals"][1] == "&str":
            classifiers[rec["id"]] = rec
    if not classifiers:
        r.missing_anchor("bool classifiers fn(&str) in optimizer::expr_rewrite::like")
        return r

    def scans_escape(rec):
        fn = Fn(rec)
        for c in fn.calls():
            if re.search(r"<impl str>::(contains|find|rfind|matches|match_indices|split)\b", c.name) or "memchr" in c.name:
                for a in c.args[1:]:
                    k = op_const(a)
                    if k and k.get("v") == 92:
                        return True
        return False

    callers = facts.fns_matching(lambda i: "expr_rewrite::like" in i)
    n = 0
    for rec in callers:
        fn = Fn(rec)
        calls = [c for c in fn.calls() if c.name in classifiers]
        if not calls:
            continue
        r.functions.add(fn.id)
        guards = []
        for c in fn.calls():
            if re.search(r"<impl str>::contains", c.name) and any((op_const(a) or {}).get("v") == 92 for a in c.args[1:]):
                dl = c.dst[0]
                for b in fn.reach(c.target) if c.target is not None else []:
                    t = fn.term(b)
                    if t[0] == "switch" and t[1][0] in ("c", "m") and t[1][1] == [dl, []]:
                        fb = [tb for v, tb in switch_edges(t) if v == 0]
                        if fb:
                            guards.append((b, fb[0]))
                        break
        for c in calls:
            n += 1
            r.call_sites += 1
            ok = any(fn.edge_dominates(gb, gt, c.bb) for gb, gt in guards) or scans_escape(classifiers[c.name])
            r.inst({"fn": fn.id, "classifier": c.name.rsplit("::", 1)[-1], "line": c.line, "escape_guarded": ok}, ok)
            if not ok:
                r.violate(fn.id, c.name.rsplit("::", 1)[-1], "classifier runs on patterns that may contain the escape character `\\\\` and "
                          "does not look for it: 'ab' LIKE 'a\\\\b' is true with the general matcher and false after the rewrite",
                          rec["file"], c.line)
    return r


SIGNED = ("i8", "i16", "i32", "i64", "i128", "isize")
UNSIGNED = ("u8", "u16", "u32", "u64", "u128", "usize")


def _int_param_root(fn, op, at):
    """parameter index when the operand is (a copy / deref / widening cast of) a signed integer parameter of the function"""
    if op[0] not in ("c", "m"):
        return None
    o = fn.origin(op, at=at)
    if o[0] == "arg":
        ty = fn.locals[o[1]].replace("&", "").strip()
        if ty in SIGNED:
            return o[1]
    return None


def _nonneg_edges(fn, root):
    """[(block, target)] switch edges that imply `param >= 0` (comparison of the parameter itself with a constant)"""
    out = []
    for b, i, pl, rv, ln in fn.assigns():
        if rv[0] != "bin" or rv[1] not in ("Lt", "Le", "Gt", "Ge", "Eq") or fn.term(b)[0] != "switch":
            continue
        t = fn.term(b)
        if t[1][0] not in ("c", "m") or t[1][1] != [pl[0], []]:
            continue
        x, y = rv[2], rv[3]
        op = rv[1]
        if _int_param_root(fn, y, b) == root and x[0] == "k":          # c op r  →  r op' c
            x, y = y, x
            op = {"Lt": "Gt", "Le": "Ge", "Gt": "Lt", "Ge": "Le", "Eq": "Eq"}[op]
        if _int_param_root(fn, x, b) != root or y[0] != "k" or y[1].get("k") != "int":
            continue
        c = y[1]["v"]
        for v, tgt in switch_edges(t):
            truth = (v != 0) if v is not None else True
            implies = (op == "Gt" and truth and c >= -1) or (op == "Ge" and truth and c >= 0) or (op == "Lt" and not truth and c >= 0) or \
                      (op == "Le" and not truth and c >= -1) or (op == "Eq" and truth and c >= 0)
            if implies:
                out.append((b, tgt))
    return out


def _ge_edges(fn, root, other, at):
    """switch edges implying `param >= other` for a subtraction `param - other` (comparison of the same two values)"""
    def key(op, b):
        if op[0] == "k":
            return ("k", op[1].get("v"))
        o = fn.origin(op, at=b)
        if o[0] in ("arg", "local"):
            return (o[0], o[1])
        if o[0] == "call":
            return ("call", o[1].bb)
        if o[0] == "rv" and o[1][0] == "cast" and o[1][2][0] in ("c", "m"):
            return key(o[1][2], b)
        return ("?", id(op))
    ko = key(other, at)
    out = []
    for b, i, pl, rv, ln in fn.assigns():
        if rv[0] != "bin" or rv[1] not in ("Lt", "Le", "Gt", "Ge") or fn.term(b)[0] != "switch":
            continue
        t = fn.term(b)
        if t[1][0] not in ("c", "m") or t[1][1] != [pl[0], []]:
            continue
        x, y, op = rv[2], rv[3], rv[1]
        if _int_param_root(fn, y, b) == root and key(x, b) == ko:
            x, y = y, x
            op = {"Lt": "Gt", "Le": "Ge", "Gt": "Lt", "Ge": "Le"}[op]
        if _int_param_root(fn, x, b) != root or key(y, b) != ko:
            continue
        for v, tgt in switch_edges(t):
            truth = (v != 0) if v is not None else True
            if (op in ("Gt", "Ge") and truth) or (op in ("Lt",) and not truth) or (op == "Le" and not truth):
                out.append((b, tgt))
    return out


def rule_intarg(facts):
    """String functions take SQL integers (counts, positions) that may be any i64. Before such an argument is negated, used in
    overflow-checked arithmetic, or converted to an unsigned count, its sign/range has to be considered: `-count` panics for
    i64::MIN, `(from - 1) as usize` turns 0 and negative positions into ~2^64 loop iterations (the statement never returns)."""
    r = RuleResult("C20-INTARG", "SQL integer arguments of string functions are never negated raw, and are used in overflow-checked arithmetic or converted to "
                   "an unsigned count only where a comparison of that argument has established it is non-negative", floor=6)
    for rec in facts.all_fns(["glaredb_core"], contains="::functions::scalar::builtin::string::"):
        if "::functions::scalar::builtin::string::" not in rec["id"] or "::tests::" in rec["id"]:
            continue
        fn = Fn(rec)
        guards = {}

        def guarded(root, b):
            if root not in guards:
                guards[root] = _nonneg_edges(fn, root)
            return any(fn.edge_dominates(sb, tg, b) for sb, tg in guards[root])
        for b, i, pl, rv, ln in fn.assigns():
            kind = None
            if rv[0] == "un" and rv[1] == "Neg":
                root = _int_param_root(fn, rv[2], b)
                if root:
                    kind, ok, what = "neg", False, "negated with `-` (panics for the minimum value; use unsigned_abs / checked_neg)"
            elif rv[0] == "bin" and rv[1] in ("SubWithOverflow", "AddWithOverflow", "MulWithOverflow") and rv[4] in SIGNED:
                root = _int_param_root(fn, rv[2], b) or _int_param_root(fn, rv[3], b)
                if root:
                    kind = rv[1][:3].lower()
                    ok = guarded(root, b)
                    if not ok and rv[1].startswith("Sub") and _int_param_root(fn, rv[2], b) == root:
                        ok = any(fn.edge_dominates(sb, tg, b) for sb, tg in _ge_edges(fn, root, rv[3], b))
                    what = f"used in overflow-checked `{rv[1][:3]}` without a dominating comparison that makes it non-negative (panics near the type's limits)"
            elif rv[0] == "cast" and rv[1] == "IntToInt" and rv[3] in SIGNED and rv[4] in UNSIGNED:
                # the cast operand: the parameter itself or arithmetic on it
                root = _int_param_root(fn, rv[2], b)
                if root is None and rv[2][0] in ("c", "m"):
                    o = fn.origin(rv[2], at=b)
                    if o[0] == "rv" and o[1][0] == "un" and o[1][1] == "Neg":
                        continue
                    if o[0] == "rv" and o[1][0] in ("bin", "un"):
                        for x in o[1][2:4]:
                            if isinstance(x, list) and x and x[0] in ("c", "m"):
                                root = root or _int_param_root(fn, x, b)
                    elif o[0] == "local":
                        # `.0` of a checked-op tuple
                        for d in fn.defs.get(o[1], []):
                            if d[0] == "a" and d[3][0] == "bin":
                                for x in d[3][2:4]:
                                    if x[0] in ("c", "m"):
                                        root = root or _int_param_root(fn, x, b)
                if root:
                    kind = "to-unsigned"
                    ok = guarded(root, b)
                    what = f"converted to {rv[4]} with `as` without a dominating comparison that makes it non-negative (a zero/negative argument becomes a count near 2^64)"
            if not kind:
                continue
            r.functions.add(fn.id)
            r.call_sites += 1
            r.inst({"fn": fn.id, "line": ln, "use": kind, "param": fn.local_name(root), "sign_established": ok}, ok)
            if not ok:
                r.violate(fn.id, f"int-arg-{kind}:{fn.local_name(root)}", f"the SQL integer argument `{fn.local_name(root)}` is {what}", rec["file"], ln)
    return r


def _val_key(fn, op, at):
    """identity of a value inside one function: constant, parameter/local, or the call that produced it (through casts,
    unwrap/unwrap_or and copies)"""
    if op[0] == "k":
        return ("k", op[1].get("v"))
    o = fn.origin(op, at=at, through_calls=("::unwrap", "::unwrap_or", "::expect", "::try_from", "::try_into", "::unsigned_abs", "::branch"))
    if o[0] in ("arg", "local"):
        return (o[0], o[1])
    if o[0] == "call":
        return ("call", o[1].bb)
    if o[0] == "const":
        return ("k", o[1].get("v"))
    return ("?", id(op))


def rule_subguard(facts):
    """Character counts and SQL counts meet in unsigned subtractions (`char_count - n`). Such a subtraction underflows (panic in
    debug builds, a count near 2^64 in release builds) unless a comparison of *the same two values* lets only minuend >= subtrahend
    through; comparing against a different quantity (the byte length instead of the character count) is not that comparison."""
    r = RuleResult("C20-SUBGUARD", "every unsigned subtraction in the string functions is dominated by a comparison of the same two values that excludes "
                   "minuend < subtrahend", floor=4)
    for rec in facts.all_fns(["glaredb_core"], contains="::functions::scalar::builtin::string::"):
        if "::functions::scalar::builtin::string::" not in rec["id"] or "::tests::" in rec["id"]:
            continue
        fn = Fn(rec)
        cmps = []
        for b, i, pl, rv, ln in fn.assigns():
            if rv[0] == "bin" and rv[1] in ("Lt", "Le", "Gt", "Ge", "Eq", "Ne") and fn.term(b)[0] == "switch" and fn.term(b)[1][0] in ("c", "m") \
                    and fn.term(b)[1][1] == [pl[0], []]:
                cmps.append((b, rv[1], rv[2], rv[3]))
        for b, i, pl, rv, ln in fn.assigns():
            if not (rv[0] == "bin" and rv[1] in ("Sub", "SubWithOverflow") and rv[4] in UNSIGNED):
                continue
            r.functions.add(fn.id)
            r.call_sites += 1
            ka, kb = _val_key(fn, rv[2], b), _val_key(fn, rv[3], b)
            ok = False
            for cb, op, x, y in cmps:
                kx, ky = _val_key(fn, x, cb), _val_key(fn, y, cb)
                t = fn.term(cb)
                for v, tgt in switch_edges(t):
                    truth = (v != 0) if v is not None else True
                    if not fn.edge_dominates(cb, tgt, b):
                        continue
                    if (kx, ky) == (ka, kb):          # a op b
                        good = (op in ("Gt", "Ge") and truth) or (op in ("Lt",) and not truth) or (op == "Le" and not truth) or (op == "Eq" and truth)
                    elif (kx, ky) == (kb, ka):        # b op a
                        good = (op in ("Lt", "Le") and truth) or (op in ("Gt",) and not truth) or (op == "Ge" and not truth) or (op == "Eq" and truth)
                    elif kb[0] == "k" and isinstance(kb[1], int):
                        # constant subtrahend k: minuend compared with a constant c, or its signed source with 0
                        c = ky[1] if ky[0] == "k" else kx[1] if kx[0] == "k" else None
                        side = "a" if kx == ka else "b" if ky == ka else None
                        if c is None or side is None or not isinstance(c, int):
                            continue
                        o = op if side == "a" else {"Lt": "Gt", "Le": "Ge", "Gt": "Lt", "Ge": "Le", "Eq": "Eq", "Ne": "Ne"}[op]
                        k = kb[1]
                        good = (o == "Gt" and truth and c >= k - 1) or (o == "Ge" and truth and c >= k) or (o == "Lt" and not truth and c >= k) or \
                               (o == "Le" and not truth and c >= k - 1) or (o == "Eq" and not truth and c == 0 and k == 1) or (o == "Ne" and truth and c == 0 and k == 1) or \
                               (o == "Lt" and truth and c <= 0 and k == 1)      # signed source < 0  ⇒ |source| >= 1
                    else:
                        continue
                    ok = ok or good
            r.inst({"fn": fn.id, "line": ln, "type": rv[4], "guarded_by_comparison_of_the_same_values": ok}, ok)
            if not ok:
                r.violate(fn.id, "unguarded-unsigned-sub", f"the {rv[4]} subtraction at line {ln} is not dominated by a comparison of its own two operands that excludes "
                          "minuend < subtrahend: for multi-byte text (character count < byte length) or extreme counts it underflows", rec["file"], ln)
    return r


def rule_loopbound(facts):
    """`for _ in 0..n` where n is an SQL integer argument runs up to 2^63 times: the statement never returns (repeat('', n),
    substring(s, 0) before the repair). Such a loop needs an upper bound established before it (an ordering comparison of the
    argument - or of a value computed from it - with something other than the constants 0/1), or a data-dependent exit inside the
    loop (e.g. `if chars.next().is_none() { break }`)."""
    from .c04 import _arg_roots
    r = RuleResult("C20-LOOPBOUND", "range loops in string functions whose bound derives from an SQL integer argument have an upper-bound comparison before them "
                   "or a data-dependent exit inside", floor=2)
    for rec in facts.all_fns(["glaredb_core"], contains="::functions::scalar::builtin::string::"):
        if "::functions::scalar::builtin::string::" not in rec["id"] or "::tests::" in rec["id"]:
            continue
        if "ops::Range" not in str(rec["bbs"]):
            continue
        fn = Fn(rec)
        int_params = {l for l in range(1, fn.argc + 1) if fn.locals[l].replace("&", "").strip() in SIGNED + UNSIGNED}
        if not int_params:
            continue
        for c in fn.calls():
            if not (c.name.endswith("::next") and "ops::Range" in " ".join([c.name] + (c.gargs or []) + [c.callee.get("self", "") or ""])):
                continue
            # the Range value: receiver ← into_iter(Range{start,end})
            o = fn.origin(c.args[0], at=c.bb)
            rng = None
            if o[0] == "call" and o[1].name.endswith("into_iter") and o[1].args:
                ro = fn.origin(o[1].args[0], at=o[1].bb)
                if ro[0] == "rv" and ro[1][0] == "agg":
                    rng = ro[1]
            if rng is None:
                for b, i, pl, rv, ln in fn.assigns():
                    if rv[0] == "agg" and rv[1][0] == "adt" and rv[1][1].endswith("ops::Range"):
                        rng = rv
            if rng is None or len(rng[2]) < 2:
                continue
            roots = {x for x, _o in _arg_roots(fn, rng[2][1], c.bb)} & int_params
            if not roots:
                continue
            r.functions.add(fn.id)
            r.call_sites += 1
            # (a) upper bound before the loop
            bounded = False
            for b, i, pl, rv, ln in fn.assigns():
                if rv[0] == "bin" and rv[1] in ("Lt", "Le", "Gt", "Ge") and fn.dominates(b, c.bb) and b != c.bb:
                    for x, y in ((rv[2], rv[3]), (rv[3], rv[2])):
                        if {q for q, _o in _arg_roots(fn, x, b)} & roots and not (y[0] == "k" and y[1].get("v") in (0, 1)):
                            bounded = True
            # (b) data-dependent exit
            loop = {x for x in fn.reachable_from(c.bb) if c.bb in fn.reachable_from(x)}
            natural = c.target
            exits = 0
            for u in loop:
                for v in fn.succ[u]:
                    if v in loop or u == natural:
                        continue
                    if any(e in fn.reachable_from(v) for e in fn.exits):
                        exits += 1
            ok = bounded or exits > 0
            r.inst({"fn": fn.id, "line": c.line, "bound_param": sorted(fn.local_name(x) for x in roots), "upper_bound_before": bounded, "data_dependent_exits": exits}, ok)
            if not ok:
                r.violate(fn.id, "unbounded-range-loop", f"the range loop at line {c.line} runs `{', '.join(sorted(fn.local_name(x) for x in roots))}` times with no upper bound and no "
                          "data-dependent exit: an extreme argument makes the statement run (or allocate) without end", rec["file"], c.line)
    return r


def rule_transfirst(facts):
    """translate(s, from, to): when a character occurs more than once in `from`, its first occurrence decides (PostgreSQL; the project's
    own translate.slt says so). The character map is therefore filled without overwriting: through `entry(..).or_insert*`, or through an
    `insert` that is dominated by a membership test of the same map. A bare `HashMap::insert` in the fill loop lets a later occurrence
    replace the earlier mapping (`translate('banana','aba','xy')` = 'ynn' instead of 'yxnxnx')."""
    r = RuleResult("C20-TRANSFIRST", "translate() fills its character map without overwriting (first occurrence in `from` wins)", floor=1)
    recs = [x for x in facts.all_fns(["glaredb_core"], contains="string::translate::") if "string::translate::" in x["id"] and "::tests::" not in x["id"]]
    fills = 0
    for rec in recs:
        fn = Fn(rec)
        tests = [c for c in fn.calls() if "HashMap" in c.name and c.name.rsplit("::", 1)[-1] in ("contains_key", "get", "get_mut")]
        for c in fn.calls():
            last = c.name.rsplit("::", 1)[-1]
            if "HashMap" in c.name and last == "entry" or "hash_map::Entry" in c.name and last.startswith("or_insert"):
                fills += 1
                r.functions.add(fn.id)
                r.inst({"fn": fn.id, "line": c.line, "fill": last}, True)
            if "HashMap" in c.name and last == "insert":
                fills += 1
                guarded = any(fn.dominates(t.bb, c.bb) and t.bb != c.bb for t in tests)
                r.functions.add(fn.id)
                r.call_sites += 1
                r.inst({"fn": fn.id, "line": c.line, "fill": "insert", "behind_membership_test": guarded}, guarded)
                if not guarded:
                    r.violate(fn.id, "map-overwritten", f"the character map is filled with a plain insert at line {c.line}: a later occurrence of a character in `from` "
                              "overwrites the mapping of its first occurrence", rec["file"], c.line)
    if fills == 0:
        r.missing_anchor("string::translate: no fill of the character map found")
    return r


def run(ctx):
    facts = ctx["facts"]
    return [rule_idx(facts), rule_like(facts), rule_intarg(facts), rule_subguard(facts), rule_loopbound(facts), rule_transfirst(facts)]


CLAIM = {
    "text": "Taint/provenance rule over the MIR of every function and closure in the string scalar-function module (sources: integer "
            "parameters and char counts; sinks: str/String slicing, split_at, truncate, drain, insert…; only value-preserving helpers "
            "propagate) plus an edge-dominance guard rule on the LIKE rewrite. Both hold or fail for all inputs by code shape; the "
            "string values produced are outside static reach. Plus the integer-argument discipline of the string functions: an SQL integer argument is never negated raw, and is used in overflow-checked arithmetic or converted to an unsigned count only behind a comparison that makes it non-negative; every unsigned subtraction is dominated by a comparison of its own two operands. Range loops whose bound derives from an integer argument have an upper bound before them or a data-dependent exit inside."
            " Plus TRANSFIRST: translate() fills its character map without overwriting.",
    "note": "trusted: rustc MIR; the sink and transparent-call tables in rules/c20.py and rules/mir.py; byte offsets returned by std "
            "char-boundary APIs are assumed valid boundaries",
    "technique": "static analysis: MIR taint/provenance + edge-dominance guard rule (rustc_private driver)",
}
