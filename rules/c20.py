"""C20 — strings are Unicode-correct; LIKE rewrites are equivalent (narrow clauses).
  C20-IDX   in the string scalar functions, byte positions used to slice/split/truncate `str`/`String`
            never derive from SQL integer arguments (or char counts) through casts/arithmetic — they must
            come from char-boundary APIs (char_indices, find, len, …)
  C20-LIKE  every LIKE-rewrite classifier call is guarded by an escape-character test (or the classifier
            itself scans for the escape), so patterns containing `\\` keep the general matcher
Not decided: what each function returns."""
from .framework import RuleResult
from .mir import Fn, op_const, switch_edges, taint, operand_locals
import re

EXPLANATION = ("Decides (a) a provenance/taint rule on MIR of all string scalar functions (including closures): no SQL-integer-derived "
               "value reaches a `str` slicing/splitting/truncating primitive, which would panic inside a multi-byte character; "
               "(b) a guard rule on the LIKE rewrite: classifier calls are dominated by the no-escape edge. Necessary conditions "
               "for Unicode correctness and for the LIKE rewrites to be equivalences; function results themselves are not decided.")
NOT_DECIDED = ["the value each string function returns", "regex translation of LIKE patterns", "collation"]

STR_MOD = "glaredb_core::functions::scalar::builtin::string::"
LIKE_MOD = "glaredb_core::optimizer::expr_rewrite::like::"
INT_TYS = {"i8", "i16", "i32", "i64", "i128", "u8", "u16", "u32", "u64", "u128", "isize"}

SINKS = [
    ("std::ops::Index::index", "str-index"), ("std::ops::IndexMut::index_mut", "str-index"),
    ("core::str::<impl str>::split_at", "split_at"), ("core::str::<impl str>::split_at_mut", "split_at"),
    ("alloc::string::String::truncate", "truncate"), ("std::string::String::truncate", "truncate"),
    ("String::drain", "drain"), ("String::replace_range", "replace_range"), ("String::insert", "insert"),
    ("String::split_off", "split_off"),
    ("core::str::<impl str>::get_unchecked", "get_unchecked"), ("core::str::<impl str>::is_char_boundary", None),
]


def _is_str_recv(fn, c):
    s = c.callee.get("self") or c.callee.get("implself") or ""
    if s in ("str", "std::string::String", "alloc::string::String", "String"):
        return True
    if c.args:
        o = c.args[0]
        if o[0] in ("c", "m"):
            ty = fn.locals[o[1][0]]
            return ty.replace("&mut ", "&").lstrip("&") in ("str", "std::string::String")
    return False


def rule_idx(facts):
    r = RuleResult("C20-IDX", "byte indices into str/String never derive from SQL integers or char counts", floor=5)
    recs = facts.fns_matching(lambda i: "glaredb_core::functions::" in i)
    for rec in recs:
        fn = Fn(rec)
        sinks = []
        for c in fn.calls():
            for pat, kind in SINKS:
                if kind and (c.decl == pat or c.name.endswith(pat) or pat in c.name) and _is_str_recv(fn, c):
                    sinks.append((c, kind))
                    break
        if not sinks:
            continue
        r.functions.add(fn.id)
        # seeds: integer-typed parameters (by value or by reference), char counts
        seeds = set()
        for l in range(1, fn.argc + 1):
            ty = fn.locals[l].replace("&mut ", "").replace("&", "")
            if ty in INT_TYS:
                seeds.add(l)
        for c in fn.calls():
            if c.name.endswith("Iterator::count") or c.decl.endswith("Iterator::count"):
                seeds.add(c.dst[0])
        # closures see their integer params as args too (handled above since closures are fns)
        tainted = taint(fn, seeds)
        for c, kind in sinks:
            r.call_sites += 1
            idx_ops = c.args[1:]
            bad = operand_locals(idx_ops, set()) & tainted
            ok = not bad
            r.inst({"fn": fn.id, "sink": kind, "line": c.line, "index_from_sql_integer": not ok}, ok)
            if not ok:
                names = sorted(fn.local_name(l) for l in bad)
                r.violate(fn.id, f"{kind}", f"byte position passed to {kind} derives from an integer argument / char count ({', '.join(names)}) "
                          "instead of a char-boundary API: panics inside a multi-byte character (e.g. lpad('héllo', 2, 'x'))",
                          rec["file"], c.line)
    return r


def rule_like(facts):
    r = RuleResult("C20-LIKE", "LIKE rewrite classifiers only run on patterns without the escape character", floor=4)
    classifiers = {}
    for rec in facts.fns_matching(lambda i: i.startswith(LIKE_MOD) and "{closure" not in i and "::" not in i[len(LIKE_MOD):]):
        if rec["locals"][0] == "bool" and rec["argc"] == 1 and rec["locals"][1] == "&str":
            classifiers[rec["id"]] = rec
    if not classifiers:
        r.missing_anchor("bool classifiers fn(&str) in optimizer::expr_rewrite::like")
        return r

    def scans_escape(rec):
        fn = Fn(rec)
        for c in fn.calls():
            if re.search(r"<impl str>::(contains|find|rfind|matches|match_indices|split)\b", c.name) or "memchr" in c.name:
                for a in c.args[1:]:
                    k = op_const(a)
                    if k and k.get("v") == 92:
                        return True
        return False

    callers = facts.fns_matching(lambda i: "expr_rewrite::like" in i)
    n = 0
    for rec in callers:
        fn = Fn(rec)
        calls = [c for c in fn.calls() if c.name in classifiers]
        if not calls:
            continue
        r.functions.add(fn.id)
        guards = []
        for c in fn.calls():
            if re.search(r"<impl str>::contains", c.name) and any((op_const(a) or {}).get("v") == 92 for a in c.args[1:]):
                dl = c.dst[0]
                for b in fn.reach(c.target) if c.target is not None else []:
                    t = fn.term(b)
                    if t[0] == "switch" and t[1][0] in ("c", "m") and t[1][1] == [dl, []]:
                        fb = [tb for v, tb in switch_edges(t) if v == 0]
                        if fb:
                            guards.append((b, fb[0]))
                        break
        for c in calls:
            n += 1
            r.call_sites += 1
            ok = any(fn.edge_dominates(gb, gt, c.bb) for gb, gt in guards) or scans_escape(classifiers[c.name])
            r.inst({"fn": fn.id, "classifier": c.name.rsplit("::", 1)[-1], "line": c.line, "escape_guarded": ok}, ok)
            if not ok:
                r.violate(fn.id, c.name.rsplit("::", 1)[-1], "classifier runs on patterns that may contain the escape character `\\\\` and "
                          "does not look for it: 'ab' LIKE 'a\\\\b' is true with the general matcher and false after the rewrite",
                          rec["file"], c.line)
    return r


def run(ctx):
    facts = ctx["facts"]
    return [rule_idx(facts), rule_like(facts)]


CLAIM = {
    "text": "Taint/provenance rule over the MIR of every function and closure in the string scalar-function module (sources: integer "
            "parameters and char counts; sinks: str/String slicing, split_at, truncate, drain, insert…; only value-preserving helpers "
            "propagate) plus an edge-dominance guard rule on the LIKE rewrite. Both hold or fail for all inputs by code shape; the "
            "string values produced are outside static reach.",
    "note": "trusted: rustc MIR; the sink and transparent-call tables in rules/c20.py and rules/mir.py; byte offsets returned by std "
            "char-boundary APIs are assumed valid boundaries",
    "technique": "static analysis: MIR taint/provenance + edge-dominance guard rule (rustc_private driver)",
}
