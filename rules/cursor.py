"""Chunked-copy cursor pairing (shared by C14-CURSOR and C10-CURSOR).

A loop that works through an input in pieces keeps two cursors in step: a remaining-counter `rem -= n` and a source offset
`off += n`, and hands `(off, n)` to a copy/read routine. If the loop decrements the remaining count by the amount it passes
on but the offset argument of that call is not advanced by the same amount inside the loop, every further iteration processes
the same slice of the input again: rows are stored twice and the tail is lost, while all counts still add up."""
from .mir import Fn, operand_locals

OFFSET_NAMES = ("offset", "src_start", "start")


def _copy_root(fn, op, at):
    """follow plain copies of temporaries back to a named / multiply-defined local"""
    if op[0] not in ("c", "m") or op[1][1]:
        return None
    l = op[1][0]
    for _ in range(8):
        sd = fn.single_def(l)
        if sd and sd[0] == "a" and sd[3][0] == "use" and sd[3][1][0] in ("c", "m") and not sd[3][1][1][1]:
            l = sd[3][1][1][0]
            continue
        break
    return l


def _param_names(facts, cache, name):
    if name not in cache:
        rec = facts.fn(name)
        if rec is None:
            cache[name] = None
        else:
            f = Fn(rec)
            cache[name] = [f.varnames.get(l, "") for l in range(1, f.argc + 1)]
    return cache[name]


def cursor_sites(facts, crates):
    """[{fn, line, callee, remaining, amount, offset_param, advanced}]"""
    out = []
    cache = {}
    for rec in facts.all_fns(crates, contains=("SubWithOverflow", '"Sub"')):
        if "::tests::" in rec["id"] or "testutil" in rec["id"]:
            continue
        fn = Fn(rec)
        # loop-carried decrements  R = R - N   (via SubWithOverflow tuple or plain Sub)
        decs = []
        for b, i, pl, rv, ln in fn.assigns():
            if rv[0] == "bin" and rv[1] in ("Sub", "SubWithOverflow") and rv[2][0] in ("c", "m") and rv[3][0] in ("c", "m"):
                R = _copy_root(fn, rv[2], b)
                N = _copy_root(fn, rv[3], b)
                if R is None or N is None:
                    continue
                # the result flows back into R inside a cycle through b
                if not any(b in fn.reachable_from(s_) for s_ in fn.succ[b]):
                    continue
                res = pl[0]
                back = False
                for b2, i2, pl2, rv2, ln2 in fn.assigns():
                    if pl2[0] == R and not pl2[1] and rv2[0] == "use" and rv2[1][0] in ("c", "m") and rv2[1][1][0] == res:
                        back = True
                if back or res == R:
                    decs.append((b, R, N, ln))
        if not decs:
            continue
        for b, R, N, ln in decs:
            loop = {x for x in fn.reachable_from(b) if b in fn.reachable_from(x)}
            for c in fn.calls():
                if c.bb not in loop or not c.callee.get("res_local", c.callee.get("local")):
                    continue
                ps = _param_names(facts, cache, c.name)
                if not ps:
                    continue
                roots = [_copy_root(fn, a, c.bb) if a[0] in ("c", "m") else None for a in c.args]
                if N not in roots:
                    continue
                for k, p in enumerate(ps):
                    if k >= len(c.args) or not any(nm in p for nm in OFFSET_NAMES) or "dest" in p or "dst" in p or "write" in p:
                        continue
                    O = roots[k]
                    if O is None and c.args[k][0] == "k":
                        advanced = False
                    elif O is None:
                        continue
                    else:
                        # O = O + N inside the loop
                        advanced = False
                        for b2, i2, pl2, rv2, ln2 in fn.assigns():
                            if b2 in loop and rv2[0] == "bin" and rv2[1] in ("Add", "AddWithOverflow") and rv2[2][0] in ("c", "m") and rv2[3][0] in ("c", "m"):
                                if {_copy_root(fn, rv2[2], b2), _copy_root(fn, rv2[3], b2)} == {O, N}:
                                    advanced = True
                    out.append({"fn": fn.id, "file": rec["file"], "line": c.line, "callee": c.name.rsplit("::", 2)[-2] + "::" + c.name.rsplit("::", 1)[-1],
                                "remaining": fn.local_name(R), "amount": fn.local_name(N), "offset_param": p, "advanced": advanced})
    return out
