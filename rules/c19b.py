"""C19 (second group) — untrusted-value discipline of the Parquet reader beyond the cursor primitives.
All four rules range over the *live* reader-side functions of glaredb_ext_parquet (reachable from the engine roots in the
RTA call graph; writer/encoder modules and test utilities excluded):
  C19-SIGN    a signed integer read from a file-decoded structure (thrift `format::*`, `metadata::*`, `page::*`) is cast to an
              unsigned type only behind a sign check: a dominating comparison of the same value with a constant, or a field
              invariant (every live construction site of the owning struct checks the operand it stores in that field)
  C19-COPYLEN every `copy_from_slice` has equal-length operands by construction: a dominating comparison of two slice lengths,
              a fixed-size array filled from a constant range of the same width, or both slices cut with the same length value
  C19-SLICE   constant-range indexing (`data[..N]`, `data[A..B]`) of byte buffers decoded from the file is dominated by a
              comparison involving that buffer's length (in the function or, for closures, before the closure is created)
  C19-PANIC   explicit non-debug panics (assert!/assert_eq!/panic!/unreachable!/unimplemented!) in live reader functions are
              confined to the frozen table INTERNAL_PANICS (one reason each: the condition cannot depend on file contents)
None of this decides that no input can crash the reader; it decides the named disciplines at every site."""
import re
from .framework import RuleResult
from .mir import Fn, op_const

FILE_STRUCT_MODS = ("glaredb_ext_parquet::format::", "glaredb_ext_parquet::metadata::", "glaredb_ext_parquet::page::")
WRITER_RE = re.compile(r"writer|::to_thrift|encodings::encoding|metadata::properties|Builder|::encode")
SIGNED = {"i8", "i16", "i32", "i64", "i128", "isize"}
UNSIGNED = {"u8", "u16", "u32", "u64", "u128", "usize"}
CMP = ("Lt", "Le", "Gt", "Ge", "Eq", "Ne")


def live_reader_fns(facts, cg):
    live = cg.live(facts)
    out = []
    for rec in facts.all_fns(["glaredb_ext_parquet"]):
        fid = rec["id"]
        if "testutil" in fid or WRITER_RE.search(fid):
            continue
        if fid not in live and (rec.get("root") or fid) not in live:
            continue
        out.append(rec)
    return out


def _fields(proj):
    return [p for p in proj if isinstance(p, list) and p[0] == "f" and len(p) > 2]


def _key(fn, op, at):
    """(origin kind, root, field-name path) of an operand — identity of "the same value" inside one function"""
    o = fn.origin(op, at=at)
    proj = o[2] if len(o) > 2 and isinstance(o[2], list) else []
    names = tuple(p[1] for p in _fields(proj))
    if o[0] in ("arg", "local"):
        return (o[0], o[1], names), proj
    if o[0] == "call":
        return ("call", o[1].bb, names), proj
    return (o[0], None, names), proj


def _const_cmp_guards(fn):
    """block → set of value keys compared with a constant there (block ends in a switch or feeds one)"""
    out = {}
    for b, i, pl, rv, ln in fn.assigns():
        if rv[0] == "bin" and rv[1] in CMP:
            for a, other in ((rv[2], rv[3]), (rv[3], rv[2])):
                if other[0] == "k" and a[0] in ("c", "m"):
                    k, _ = _key(fn, a, b)
                    out.setdefault(b, set()).add(k)
    return out


def _guarded_by_const_cmp(fn, guards, key, bb):
    for g, keys in guards.items():
        if key in keys and (fn.dominates(g, bb)):
            return True
    return False


def rule_sign(facts, cg):
    r = RuleResult("C19-SIGN", "signed file-decoded fields are cast to unsigned only behind a sign check (local comparison or field invariant "
                   "established at every live construction site)", floor=3)
    recs = live_reader_fns(facts, cg)
    fns = {rec["id"]: Fn(rec) for rec in recs}
    # construction sites per struct
    ctor_sites = {}
    for fid, fn in fns.items():
        for b, i, pl, rv, ln in fn.assigns():
            if rv[0] == "agg" and rv[1][0] == "adt" and rv[1][1].startswith(FILE_STRUCT_MODS):
                ctor_sites.setdefault(rv[1][1], []).append((fn, b, rv))
    guards_cache = {}

    def guards(fn):
        if fn.id not in guards_cache:
            guards_cache[fn.id] = _const_cmp_guards(fn)
        return guards_cache[fn.id]

    def field_invariant(owner, field):
        sites = ctor_sites.get(owner, [])
        if not sites:
            return None
        for fn, b, rv in sites:
            flds = rv[1][3]
            if field not in flds:
                return None
            op = rv[2][flds.index(field)]
            if op[0] == "k":
                continue
            k, pj = _key(fn, op, b)
            if _guarded_by_const_cmp(fn, guards(fn), k, b):
                continue
            # copy construction (derived Clone, struct update): the value is the same field of another instance
            oc = fn.origin(op, at=b, through_calls=("Clone>::clone", "clone::Clone::clone", "Clone for "))
            pc = _fields(oc[2]) if len(oc) > 2 and isinstance(oc[2], list) else []
            if pc and pc[-1][1] == field and pc[-1][2] == owner:
                continue
            # constructor function: the operand is a parameter → every live caller passes a checked value
            if oc[0] == "arg" and not _fields(oc[2] if len(oc) > 2 else []):
                ok = True
                callers = 0
                for cfn in fns.values():
                    for c in cfn.calls():
                        if c.name == fn.id and len(c.args) >= oc[1]:
                            callers += 1
                            a = c.args[oc[1] - 1]
                            if a[0] == "k":
                                continue
                            ka, _ = _key(cfn, a, c.bb)
                            if not _guarded_by_const_cmp(cfn, guards(cfn), ka, c.bb):
                                ok = False
                if ok and callers:
                    continue
            return None
        return f"every live construction site of {owner.rsplit('::', 1)[-1]} ({len(sites)}) stores a sign-checked value in `{field}`"

    for fid, fn in fns.items():
        for b, i, pl, rv, ln in fn.assigns():
            if not (rv[0] == "cast" and rv[1] == "IntToInt" and rv[3] in SIGNED and rv[4] in UNSIGNED and rv[2][0] in ("c", "m")):
                continue
            key, proj = _key(fn, rv[2], b)
            ff = [p for p in _fields(proj) if p[2].startswith(FILE_STRUCT_MODS)]
            if not ff:
                continue
            owner, field = ff[-1][2], ff[-1][1]
            r.functions.add(fid)
            r.call_sites += 1
            how = None
            if _guarded_by_const_cmp(fn, guards(fn), key, b):
                how = "compared with a constant on every path to the cast"
            else:
                how = field_invariant(owner, field)
            r.inst({"fn": fid, "line": ln, "field": f"{owner.rsplit('::', 1)[-1]}.{field}", "cast": f"{rv[3]}->{rv[4]}", "how": how or "UNGUARDED"}, bool(how))
            if not how:
                r.violate(fid, f"cast:{owner.rsplit('::', 1)[-1]}.{field}", f"`{owner.rsplit('::', 1)[-1]}.{field}` ({rv[3]}, decoded from the file) is cast to {rv[4]} "
                          "without a sign check: a negative value becomes a huge length/count (overflowing additions, oversized allocations, reads "
                          "past the chunk)", fn.rec["file"], ln)
    return r


def _len_value(fn, op, at):
    o = fn.origin(op, at=at)
    if o[0] == "call" and (o[1].name.endswith("]>::len") or o[1].name.endswith("::len")):
        return True
    if o[0] == "rv" and o[1][0] in ("len", "ptr_metadata", "un") and "Metadata" in str(o[1]):
        return True
    if o[0] == "rv" and o[1][0] == "len":
        return True
    return False


def _slice_len_prov(fn, op, at, depth=0):
    """length provenance of a slice-typed operand: ('array', N) | ('len', key) | None"""
    if op[0] not in ("c", "m"):
        return None
    l = op[1][0]
    ty = fn.locals[l] if l < len(fn.locals) else ""
    m = re.search(r"\[u8; (\d+)\]", ty)
    o = fn.origin(op, at=at, through_calls=("::branch", "::unwrap", "::expect", "::ok_or_else", "Deref>::deref", "DerefMut>::deref_mut"))
    if o[0] in ("local", "arg"):
        ty2 = fn.locals[o[1]] if o[1] < len(fn.locals) else ""
        m2 = re.search(r"\[u8; (\d+)\]", ty2)
        if m2:
            return ("array", int(m2.group(1)))
    if m:
        return ("array", int(m.group(1)))
    if o[0] == "rv" and o[1][0] == "repeat":
        # `[0; N]`: the count is in the type of the local that holds the array
        cur = l
        for _ in range(6):
            tyc = fn.locals[cur] if cur < len(fn.locals) else ""
            mm = re.fullmatch(r"\[u8; (\d+)\]", tyc)
            if mm:
                return ("array", int(mm.group(1)))
            sd = fn.single_def(cur) or fn.reaching_def(cur, at)
            if not sd or sd[0] != "a":
                break
            rv = sd[3]
            nxt = None
            if rv[0] in ("ref", "raw"):
                nxt = rv[2][0]
            elif rv[0] == "use" and rv[1][0] in ("c", "m"):
                nxt = rv[1][1][0]
            elif rv[0] == "cast" and rv[2][0] in ("c", "m"):
                nxt = rv[2][1][0]
            if nxt is None:
                break
            cur = nxt
        return None
    if o[0] == "call":
        c = o[1]
        nm = c.name
        if ("Index" in c.decl) and len(c.args) > 1:
            ro = fn.origin(c.args[1], at=c.bb)
            if ro[0] == "rv" and ro[1][0] == "agg" and ro[1][1][0] == "adt" and "Range" in ro[1][1][1]:
                kind = ro[1][1][1].rsplit("::", 1)[-1]
                ops = ro[1][2]
                if kind == "RangeTo":
                    c0 = op_const(ops[0])
                    return ("array", c0["v"]) if c0 and c0.get("k") == "int" else ("len", _key(fn, ops[0], c.bb)[0])
                if kind == "Range":
                    a, b_ = op_const(ops[0]), op_const(ops[1])
                    if a and b_ and a.get("k") == "int" and b_.get("k") == "int":
                        return ("array", b_["v"] - a["v"])
        if nm.endswith("::chunk_slice") and len(c.args) > 2:
            return ("len", _key(fn, c.args[2], c.bb)[0])
    return None


def rule_copylen(facts, cg):
    r = RuleResult("C19-COPYLEN", "copy_from_slice operands have equal length by construction (length comparison, same-width constant range, "
                   "or one length value cutting both slices)", floor=6)
    for rec in live_reader_fns(facts, cg):
        if "copy_from_slice" not in str(rec["bbs"]):
            continue
        fn = Fn(rec)
        lencmp = []
        for b, i, pl, rv, ln in fn.assigns():
            if rv[0] == "bin" and rv[1] in ("Eq", "Ne") and _len_value(fn, rv[2], b) and _len_value(fn, rv[3], b):
                lencmp.append(b)
        for c in fn.calls():
            if not c.name.endswith("copy_from_slice"):
                continue
            r.functions.add(fn.id)
            r.call_sites += 1
            how = None
            if any(fn.dominates(g, c.bb) and g != c.bb for g in lencmp):
                how = "dominated by a comparison of two slice lengths"
            else:
                pd = _slice_len_prov(fn, c.args[0], c.bb)
                ps = _slice_len_prov(fn, c.args[1], c.bb)
                if pd and ps and pd == ps:
                    how = f"both operands cut to the same length ({pd[0]})"
            r.inst({"fn": fn.id, "line": c.line, "how": how or "UNGUARDED"}, bool(how))
            if not how:
                r.violate(fn.id, "copy_from_slice", "copy_from_slice between buffers whose lengths come from different header fields with no "
                          "length comparison: a page whose compressed and uncompressed sizes disagree panics the worker thread", rec["file"], c.line)
    return r


BYTE_TYS = ("std::vec::Vec<u8>", "[u8]", "&[u8]", "&std::vec::Vec<u8>")


def rule_slice(facts, cg):
    """constant-range indexing of byte vectors that come out of thrift structures (statistics min/max, …)"""
    r = RuleResult("C19-SLICE", "constant-range indexing of file-decoded byte vectors is dominated by a length comparison", floor=8)
    by_id = {}
    recs = live_reader_fns(facts, cg)
    for rec in recs:
        by_id[rec["id"]] = rec
    for rec in recs:
        if not rec["id"].startswith("glaredb_ext_parquet::metadata::"):
            continue          # thrift-decoded Vec<u8> values are consumed in the metadata module
        fn = Fn(rec)
        for c in fn.calls():
            if not (c.decl.startswith("std::ops::Index") and len(c.args) > 1):
                continue
            ga = c.callee.get("args") or []
            if not ga or ga[0] not in ("std::vec::Vec<u8>",) or "Range" not in str(ga[1:]):
                continue
            bo = fn.origin(c.args[0], at=c.bb)
            bproj = bo[2] if len(bo) > 2 and isinstance(bo[2], list) else []
            in_coroutine_state = any(isinstance(p, list) and p[0] == "d" for p in bproj)   # a local of an async body saved across .await
            from_outside = (bo[0] == "arg" and not in_coroutine_state) or any(p[2].startswith(FILE_STRUCT_MODS) for p in _fields(bproj))
            if not from_outside:
                continue      # a buffer this function created and sized itself (footer bytes in the loader)
            ro = fn.origin(c.args[1], at=c.bb)
            if not (ro[0] == "rv" and ro[1][0] == "agg"):
                continue
            consts = [op_const(x) for x in ro[1][2]]
            if not all(k and k.get("k") == "int" for k in consts):
                continue
            need = max(k["v"] for k in consts)
            r.functions.add(fn.id)
            r.call_sites += 1
            how = None
            # guard: a comparison involving a len() of a Vec<u8>/[u8] value, dominating this site or the closure creation
            def len_guards(f2):
                out = []
                for b, i, pl, rv, ln in f2.assigns():
                    if rv[0] == "bin" and rv[1] in CMP and (_len_value(f2, rv[2], b) or _len_value(f2, rv[3], b)):
                        out.append(b)
                return out
            if any(fn.dominates(g, c.bb) and g != c.bb for g in len_guards(fn)):
                how = "length compared in the function"
            elif rec.get("dk") == "Closure":
                parent_id = rec["id"].rsplit("::{closure", 1)[0]
                prec = by_id.get(parent_id) or facts.fn(parent_id)
                if prec:
                    pf = Fn(prec)
                    for b2, i2, pl2, rv2, ln2 in pf.assigns():
                        if rv2[0] == "agg" and rv2[1][0] == "closure" and rv2[1][1] == rec["id"]:
                            lg = len_guards(pf)
                            # the check may sit inside a loop over [min, max]: accept a guard block from which the closure creation is
                            # reachable only through the loop exit, i.e. any len-comparison that can reach the creation site and precedes it
                            if any(pf.dominates(g, b2) for g in lg):
                                how = "length compared in the enclosing function before the closure is created"
                            elif lg and all(b2 in pf.reachable_from(g) for g in lg) and _loop_guard_dominates(pf, lg, b2):
                                how = "length of every candidate buffer compared in a loop that precedes the closure"
            r.inst({"fn": rec["id"], "line": c.line, "needs": need, "how": how or "UNGUARDED"}, bool(how))
            if not how:
                r.violate(rec["id"], f"index:..{need}", f"a byte vector decoded from the file is indexed with the constant range ..{need} without any "
                          "length comparison: a short statistics value panics while the page header / footer is converted", rec["file"], c.line)
    return r


def _loop_guard_dominates(pf, guard_blocks, site):
    """`for data in [&min, &max].into_iter().flatten() { if data.len() < n { return Err } }` followed by the use: the loop header
    (the block calling Iterator::next that controls the guard) dominates the site, and the guard's failing edge leaves the function"""
    for g in guard_blocks:
        heads = [c.bb for c in pf.calls() if c.name.endswith("::next") and pf.dominates(c.bb, g) and pf.dominates(c.bb, site)]
        for h in heads:
            # the comparison has to run for every element: it dominates every back edge of the loop (an `exact && len != n` test
            # whose first operand skips the comparison does not)
            latches = [p_ for p_ in pf.pred[h] if pf.dominates(h, p_)]
            if latches and all(pf.dominates(g, l) for l in latches):
                return True
    return False


# explicit panics that cannot be driven by file contents — frozen after reading each site
INTERNAL_PANICS = {
    # function (closures count towards their root) : (number of explicit panic sites reviewed, reason)
    "<glaredb_ext_parquet::basic::ConvertedType as std::convert::From<std::option::Option<glaredb_ext_parquet::basic::LogicalType>>>::from":
        (1, "reached only while writing / describing a schema built by the engine; thrift LogicalType::Integer widths other than 8/16/32/64 are not produced by the reader path's conversions"),
    "glaredb_ext_parquet::column::encoding::rle_bit_packed::RleBitPackedDecoder::new":
        (1, "callers pass 1 (booleans), num_required_bits(max level) ≤ 16, or the dictionary bit width that init_page_decoder rejects above 32"),
    "<glaredb_ext_parquet::data_type::Int96 as std::convert::From<std::vec::Vec<u32>>>::from":
        (1, "receives a Vec built from exactly 12 bytes (from_le_slice after the length check in statistics::from_thrift)"),
    "glaredb_ext_parquet::reader::Reader::poll_pull":
        (1, "metadata projection ids are produced by the planner from a fixed set, not by the file"),
    "glaredb_ext_parquet::schema::convert::ColumnSchemaTypeVisitor::convert_schema":
        (1, "visit_struct always returns a struct datatype for the root group"),
    "glaredb_ext_parquet::metadata::statistics::from_thrift":
        (2, "INT96 min/max length asserts sit behind from_thrift's own length check (exactly 12 bytes required; C19-SLICE guards the sibling sites)"),
    "glaredb_ext_parquet::schema::types::BasicTypeInfo::repetition":
        (1, "from_thrift_helper rejects non-root schema elements without repetition_type; the root is never asked for its repetition"),
    "glaredb_ext_parquet::schema::types::build_tree":
        (1, "called for the root's descendants only, all of which have a repetition after from_thrift_helper's validation"),
}
PANIC_RE = re.compile(r"panicking::panic|panic_fmt|panicking::assert_failed|panic_display|panic_explicit|unreachable_display")


def rule_panic(facts, cg):
    r = RuleResult("C19-PANIC", "explicit non-debug panics in live reader functions are confined to the reviewed table of internal invariants", floor=9)
    per_root = {}
    for rec in live_reader_fns(facts, cg):
        fn = Fn(rec)
        for c in fn.calls():
            if not PANIC_RE.search(c.name):
                continue
            t = fn.bbs[c.bb]["t"]
            chain = t[8] if len(t) > 8 else []
            if not chain or any("debug_assert" in x for x in chain):
                continue      # compiler-inserted (overflow / bounds) panics and debug assertions are not explicit release panics
            root = rec.get("root") or rec["id"]
            names = [x for x in chain if not x.startswith("$crate")]
            macro = names[-1] if names else chain[-1]
            per_root.setdefault(root, []).append((rec, c, macro))
    for root, sites in sorted(per_root.items()):
        allowed, reason = INTERNAL_PANICS.get(root, (0, None))
        if allowed:
            r.exempt(root, reason)
        for n, (rec, c, macro) in enumerate(sites):
            r.functions.add(rec["id"])
            r.call_sites += 1
            ok = n < allowed
            r.inst({"fn": rec["id"], "line": c.line, "macro": macro, "class": "internal invariant (reviewed)" if ok else "UNREVIEWED"}, ok)
            if not ok:
                r.violate(root, f"{macro}!", f"explicit `{macro}!` in a function the scan path reaches ({len(sites)} explicit panic site(s), {allowed} reviewed as "
                          "internal invariants): a condition a corrupted file can falsify aborts the query thread instead of returning an error",
                          rec["file"], c.line)
    return r


def rule_bounds(facts, cg):
    """contradiction rule: where the code explicitly compares an index with the length of the slice it is about to index, the
    passing edge has to imply index < len; `if index > len { return Err }` leaves index == len to the built-in bounds check
    (a panic) — the check exists, so the author believed the index is file-controlled"""
    r = RuleResult("C19-BOUNDS", "an explicit index-vs-length check that guards a slice index implies index < len on its passing edge", floor=10)
    for rec in live_reader_fns(facts, cg):
        if "BoundsCheck" not in str(rec["bbs"]):
            continue
        fn = Fn(rec)
        cmps = None
        for b in range(fn.n):
            t = fn.term(b)
            if t[0] != "assert" or t[1] != "BoundsCheck" or t[2][0] not in ("c", "m"):
                continue
            d = fn.single_def(t[2][1][0]) or fn.reaching_def(t[2][1][0], b)
            if not d or d[0] != "a" or d[3][0] != "bin" or d[3][1] != "Lt":
                continue
            idx_op, len_op = d[3][2], d[3][3]
            lo = fn.origin(len_op, at=b)
            if not (lo[0] == "rv" and lo[1][0] == "un" and lo[1][1] == "PtrMetadata"):
                continue
            base_key = _key(fn, lo[1][2], b)[0]
            idx_key = _key(fn, idx_op, b)[0]
            if idx_key[0] == "const":
                continue
            if cmps is None:
                cmps = []
                for b2, i2, pl2, rv2, ln2 in fn.assigns():
                    if rv2[0] == "bin" and rv2[1] in ("Lt", "Le", "Gt", "Ge") and fn.term(b2)[0] == "switch":
                        cmps.append((b2, rv2, ln2))
            verdicts = []
            for b2, rv2, ln2 in cmps:
                if not fn.dominates(b2, b) or b2 == b:
                    continue
                sides = []
                for op in (rv2[2], rv2[3]):
                    k = _key(fn, op, b2)[0] if op[0] in ("c", "m") else None
                    if k == idx_key:
                        sides.append("I")
                        continue
                    o = fn.origin(op, at=b2) if op[0] in ("c", "m") else ("const",)
                    if o[0] == "call" and o[1].name.endswith("::len") and o[1].args and _key(fn, o[1].args[0], o[1].bb)[0][:2] == base_key[:2]:
                        sides.append("L")
                    elif o[0] == "rv" and o[1][0] == "un" and o[1][1] == "PtrMetadata" and _key(fn, o[1][2], b2)[0][:2] == base_key[:2]:
                        sides.append("L")
                    else:
                        sides.append("?")
                if sorted(sides) != ["I", "L"]:
                    continue
                # which edge of the switch leads (exclusively) to the indexing block?
                t2 = fn.term(b2)
                from .mir import switch_edges
                for v, tgt in switch_edges(t2):
                    if fn.edge_dominates(b2, tgt, b):
                        truth = v != 0
                        op = rv2[1]
                        if sides == ["L", "I"]:
                            op = {"Lt": "Gt", "Gt": "Lt", "Le": "Ge", "Ge": "Le"}[op]     # rewrite as op(I, L)
                        rel = {("Lt", True): "<", ("Ge", False): "<", ("Le", True): "<=", ("Gt", False): "<="}.get((op, truth))
                        if rel:
                            verdicts.append((rel, ln2))
            if not verdicts:
                continue
            r.functions.add(fn.id)
            r.call_sites += 1
            ok = any(v[0] == "<" for v in verdicts)
            r.inst({"fn": fn.id, "index_line": t[6] if len(t) > 6 else 0, "explicit_checks": [f"index {v[0]} len (line {v[1]})" for v in verdicts]}, ok)
            if not ok:
                r.violate(fn.id, "weak-bounds-check", f"the explicit check at line {verdicts[0][1]} only establishes index <= len before the slice is indexed: "
                          "index == len (a truncated element list in the file) reaches the built-in bounds check and panics", rec["file"], t[6] if len(t) > 6 else 0)
    return r


def rule_listsz(facts, cg):
    """thrift compact protocol: a list header's element count read as a varint must be bounded by the remaining input before it
    is returned (generated code does Vec::with_capacity(count) and loops `count` times)"""
    r = RuleResult("C19-LISTSZ", "thrift list element counts decoded from a varint are compared with the remaining input length before use", floor=1)
    rec = facts.fn("glaredb_ext_parquet::thrift::TCompactSliceInputProtocol::<'_>::read_list_set_begin") or \
        next(iter(facts.fns_matching(lambda i: i.endswith("::read_list_set_begin") and "glaredb_ext_parquet::thrift" in i)), None)
    if rec is None:
        r.missing_anchor("TCompactSliceInputProtocol::read_list_set_begin")
        return r
    fn = Fn(rec)
    r.functions.add(fn.id)
    vlq = [c for c in fn.calls() if c.name.endswith("::read_vlq")]
    if not vlq:
        r.missing_anchor("read_vlq call in read_list_set_begin")
        return r
    for c in vlq:
        r.call_sites += 1
        # blocks comparing the decoded count with a length of the remaining input
        def is_count(op, at):
            if op[0] not in ("c", "m"):
                return False
            o = fn.origin(op, at=at, through_calls=("::branch",))
            return o[0] == "call" and o[1] is c
        guards = []
        for b, i, pl, rv, ln in fn.assigns():
            if rv[0] == "bin" and rv[1] in ("Lt", "Le", "Gt", "Ge") and fn.term(b)[0] == "switch":
                if (is_count(rv[2], b) and _is_buf_len(fn, rv[3], b)) or (is_count(rv[3], b) and _is_buf_len(fn, rv[2], b)):
                    guards.append(b)
        # every Ok return reachable from the vlq call must lie behind such a guard
        oks = [b for b, i, pl, rv, ln in fn.assigns() if rv[0] == "agg" and rv[1][0] == "adt" and rv[1][2] == "Ok" and not pl[1] and pl[0] == 0]
        unguarded = fn.reachable_from(c.target, avoid=guards) if c.target is not None else set()
        ok = bool(oks) and not any(b in unguarded for b in oks)
        r.inst({"fn": fn.id, "line": c.line, "length_guards": len(guards)}, ok and bool(guards))
        if not (ok and guards):
            r.violate(fn.id, "list-count", "the list element count decoded from a varint is returned without being compared with the remaining input: "
                      "generated readers call Vec::with_capacity(count) — a corrupted header requests an enormous allocation or a negative count", rec["file"], c.line)
    return r


def _is_buf_len(fn, op, at):
    if op[0] not in ("c", "m"):
        return False
    o = fn.origin(op, at=at)
    if o[0] == "call" and o[1].name.endswith("::len"):
        return True
    if o[0] == "rv" and o[1][0] == "un" and o[1][1] == "PtrMetadata":
        return True
    if o[0] == "rv" and o[1][0] == "cast" and o[1][2][0] in ("c", "m"):
        return _is_buf_len(fn, o[1][2], at)
    return False


def _on_vlq_path(fn, c, b):
    return b in fn.reachable_from(c.target) if c.target is not None else False


# ------------------------------------------------------------------------------------------------------------------ DICTIDX
INDEX_SINKS = ("glaredb_core::arrays::compute::copy::copy_rows", "glaredb_core::arrays::array::Array::select",
               "glaredb_core::arrays::array::selection::Selection", "glaredb_core::arrays::compute::take")
BUF_THROUGH = ("::deref", "::deref_mut", "::as_slice", "::as_mut_slice", "::as_ref", "::as_mut", "::borrow", "::borrow_mut")


def _buf_key(fn, op, at):
    o = fn.origin(op, at=at, through_calls=BUF_THROUGH)
    proj = o[2] if len(o) > 2 and isinstance(o[2], list) else []
    names = tuple(p[1] for p in proj if isinstance(p, list) and p[0] == "f")
    if o[0] in ("arg", "local"):
        return (o[0], o[1], names)
    return None


def _is_validator(facts, name):
    """a workspace function that can reject: its body (or a closure of it) orders two values and it builds an Err"""
    recs = [r_ for r_ in facts.fns_matching(lambda i: i == name or i.startswith(name + "::{closure"))]
    if not recs:
        return False
    if not recs[0]["locals"][0].startswith("std::result::Result<"):
        return False
    s = str([r_["bbs"] for r_ in recs])
    has_cmp = any(f'"bin", "{op}"' in s.replace("'", '"') for op in ("Ge", "Gt", "Lt", "Le"))
    has_err = "'Err'" in s or '"Err"' in s or "DbError::new" in s
    return has_cmp and has_err


def rule_dictidx(facts, cg):
    """Indices decoded from a data page (dictionary indices) select rows of an in-memory array. Between the decoder call that
    fills the index buffer and every engine API that consumes indices (copy_rows*, select, take) each path passes a validator
    over the same buffer whose error outcome leaves the function."""
    r = RuleResult("C19-DICTIDX", "page-decoded index buffers are validated against the dictionary size on every path before an engine API "
                   "uses them as row indices", floor=2)
    for rec in live_reader_fns(facts, cg):
        s = str(rec["bbs"])
        if "Decoder::read" not in s or not any(k in s for k in INDEX_SINKS):
            continue
        fn = Fn(rec)
        fills = []
        for c in fn.calls():
            if c.name.startswith("glaredb_ext_parquet::") and c.name.endswith("Decoder::read") and len(c.args) >= 2:
                ty = fn.locals[c.args[1][1][0]].strip() if c.args[1][0] in ("c", "m") else ""
                if re.match(r"&mut \[(u8|u16|u32|u64|usize|i32|i64)\]", ty) or re.match(r"&mut std::vec::Vec<(u16|u32|u64|usize|i32|i64)", ty):
                    k = _buf_key(fn, c.args[1], c.bb)
                    if k:
                        fills.append((c, k))
        sinks = [c for c in fn.calls() if any(c.name.startswith(k) for k in INDEX_SINKS)]
        if not fills or not sinks:
            continue
        r.functions.add(fn.id)
        for c, k in fills:
            # validator calls on the same buffer, with the error outcome leaving the function
            vblocks = []
            for v in fn.calls():
                if v is c or not v.callee.get("res_local", v.callee.get("local")) or not v.args:
                    continue
                if not any(a[0] in ("c", "m") and _buf_key(fn, a, v.bb) == k for a in v.args):
                    continue
                if not _is_validator(facts, v.name):
                    continue
                # the verdict must be branched on: Try::branch on the result, Break edge must not reach a sink
                used = False
                for u in fn.calls():
                    if u.name.endswith("::branch") and u.args and u.args[0][0] in ("c", "m"):
                        o = fn.origin(u.args[0], at=u.bb)
                        if o[0] == "call" and o[1] is v:
                            used = True
                if used:
                    vblocks.append(v.bb)
            if c.target is None:
                continue
            unvalidated = fn.reachable_from(c.target, avoid=vblocks)
            for sk in sinks:
                if sk.bb not in fn.reachable_from(c.target):
                    continue
                r.call_sites += 1
                ok = sk.bb not in unvalidated
                r.inst({"fn": fn.id, "fill_line": c.line, "sink": sk.name.rsplit("::", 1)[-1], "sink_line": sk.line, "validators": len(vblocks)}, ok)
                if not ok:
                    r.violate(fn.id, f"unvalidated-indices:{sk.name.rsplit('::', 1)[-1]}",
                              f"indices decoded from the page at line {c.line} reach `{sk.name.rsplit('::', 1)[-1]}` (line {sk.line}) on a path without "
                              "a bounds validation of the index buffer: a corrupted page selects rows past the dictionary (panic / out-of-range read)",
                              rec["file"], sk.line)
    return r


# ------------------------------------------------------------------------------------------------------------------ STALE
def rule_stale(facts, cg):
    """A length guard protects a slice `buf[..n]` only as long as the length it compared still describes `buf`. If the guard compares
    `n` with a running length variable and that variable (or the buffer) is advanced between the guard and the slice, the guard has
    checked the wrong remaining length (here: before stripping an 8-byte frame prefix) and a file-controlled `n` a few bytes too
    large passes the check and panics in the slice."""
    r = RuleResult("C19-STALE", "where a range index bound was compared with a running length variable, the indexed buffer is not re-sliced between the comparison "
                   "and the indexing", floor=3)
    for rec in live_reader_fns(facts, cg):
        if "Range" not in str(rec["bbs"]):
            continue
        fn = Fn(rec)
        cmps = []
        for b, i, pl, rv, ln in fn.assigns():
            if rv[0] == "bin" and rv[1] in ("Lt", "Le", "Gt", "Ge") and fn.term(b)[0] == "switch":
                cmps.append((b, rv[2], rv[3], ln))
        if not cmps:
            continue

        def root(op, at):
            if op[0] not in ("c", "m"):
                return None
            l = op[1][0]
            for _ in range(8):
                sd = fn.single_def(l)
                if sd and sd[0] == "a" and sd[3][0] in ("use", "cast") and (sd[3][1] if sd[3][0] == "use" else sd[3][2])[0] in ("c", "m"):
                    src = sd[3][1] if sd[3][0] == "use" else sd[3][2]
                    if src[1][1]:
                        break
                    l = src[1][0]
                    continue
                break
            return l
        for c in fn.calls():
            if not (c.decl.startswith("std::ops::Index") and len(c.args) >= 2) or "Range" not in " ".join(c.gargs or []):
                continue
            ro = fn.origin(c.args[1], at=c.bb)
            if ro[0] != "rv" or ro[1][0] != "agg":
                continue
            for bnd in ro[1][2]:
                if bnd[0] == "k":
                    continue
                n = root(bnd, c.bb)
                if n is None:
                    continue
                guards = []
                for gb, x, y, gln in cmps:
                    if not fn.dominates(gb, c.bb) or gb == c.bb:
                        continue
                    rx, ry = root(x, gb), root(y, gb)
                    if rx == n and ry is not None:
                        guards.append((gb, ry, gln))
                    elif ry == n and rx is not None:
                        guards.append((gb, rx, gln))
                running = [(gb, L, gln) for gb, L, gln in guards if len([d for d in fn.defs.get(L, []) if d[0] in ("a", "call")]) >= 2]
                if not running:
                    continue
                r.functions.add(fn.id)
                r.call_sites += 1
                fresh = False
                why = None
                buf = root(c.args[0], c.bb)
                if buf is not None:
                    sd = fn.single_def(buf)
                    if sd and sd[0] == "a" and sd[3][0] == "ref" and sd[3][2][1] in ([], ["*"]):
                        buf = sd[3][2][0]          # reborrow `&*input`: the buffer variable itself
                for gb, L, gln in running:
                    # blocks strictly between the guard and the indexing (on paths guard → … → index that do not pass the index block first)
                    between = (fn.reachable_from(gb, avoid=[c.bb]) & {x for x in range(fn.n) if c.bb in fn.reachable_from(x)}) - {gb, c.bb}
                    rebuf = [d for d in fn.defs.get(buf, []) if d[0] in ("a", "call") and d[1] in between] if buf is not None else []
                    if not rebuf:
                        fresh = True
                    else:
                        why = (fn.local_name(L), gln, fn.local_name(buf))
                r.inst({"fn": fn.id, "line": c.line, "bound": fn.local_name(n), "guards_on_running_length": len(running), "a_guard_is_current": fresh}, fresh)
                if not fresh:
                    r.violate(fn.id, f"stale-length-guard:{why[2]}", f"the bound of the slice at line {c.line} was compared with `{why[0]}` at line {why[1]}, but the buffer `{why[2]}` "
                              "is re-sliced between that comparison and the slice: the comparison used a length that no longer describes the buffer being cut",
                              rec["file"], c.line)
    return r
