"""Facts database: runs the gdbfacts driver over /repo's *current* working tree (cached by a
content hash of every source/manifest file, so any edit forces re-analysis) and gives typed
access to the fact records. Nothing here executes GlareDB code."""
import fcntl, hashlib, json, os, subprocess, sys, time

VERIF = os.path.dirname(os.path.dirname(os.path.abspath(__file__)))
REPO = os.environ.get("VERIF_REPO", "/repo")
CACHE = os.path.join(VERIF, ".cache")
FACTS_SUB = os.environ.get("VERIF_FACTS_SUB", "facts")

# crates whose fact files must exist after a run (cargo's freshness cache would silently skip
# the wrapper otherwise); floors are the body-owner counts measured on the pinned tree (-10%).
EXPECTED = {
    "glaredb_core": 5900, "glaredb_parser": 1200, "glaredb_ext_parquet": 1850,
    "glaredb_ext_csv": 75, "glaredb_rt_native": 60, "glaredb_wasm": 250, "glaredb_error": 15,
}

SRC_DIRS = ["crates", "examples", "test_bin", "bench_bin"]


def repo_hash():
    h = hashlib.sha256()
    files = []
    for d in SRC_DIRS:
        base = os.path.join(REPO, d)
        for root, dirs, fs in os.walk(base):
            dirs[:] = [x for x in dirs if x not in ("target", "node_modules", ".git")]
            for f in fs:
                if f.endswith(".rs") or f in ("Cargo.toml", "build.rs"):
                    files.append(os.path.join(root, f))
    for f in ("Cargo.toml", "Cargo.lock"):
        files.append(os.path.join(REPO, f))
    # driver + runner are part of the key: a changed driver must not reuse old facts
    for root, dirs, fs in os.walk(os.path.join(VERIF, "driver", "src")):
        for f in fs:
            files.append(os.path.join(root, f))
    files.append(os.path.join(VERIF, "facts.sh"))
    for p in sorted(files):
        try:
            with open(p, "rb") as fh:
                data = fh.read()
        except OSError:
            continue
        h.update(os.path.relpath(p, "/").encode())
        h.update(b"\0")
        h.update(hashlib.sha256(data).digest())
    h.update(os.environ.get("GDBFACTS_DEPTH", "6").encode())
    return h.hexdigest()[:24], len(files)


def ensure_facts(verbose=True):
    """Returns (facts_dir, info). Re-analyses when the tree hash is new."""
    os.makedirs(os.path.join(CACHE, FACTS_SUB), exist_ok=True)
    hsh, nfiles = repo_hash()
    d = os.path.join(CACHE, FACTS_SUB, hsh)
    lock = open(os.path.join(CACHE, "facts.lock"), "w")
    fcntl.flock(lock, fcntl.LOCK_EX)
    try:
        done = os.path.join(d, "DONE")
        info = {"hash": hsh, "source_files_hashed": nfiles, "cached": True}
        if not os.path.exists(done):
            info["cached"] = False
            t0 = time.time()
            if verbose:
                print(f"[facts] analysing /repo working tree (hash {hsh}) ...", flush=True)
            r = subprocess.run([os.path.join(VERIF, "facts.sh"), d, "--workspace"],
                               stdout=subprocess.PIPE, stderr=subprocess.STDOUT, text=True)
            if r.returncode != 0:
                sys.stdout.write(r.stdout[-6000:])
                raise SystemExit("CHECK-BROKEN: fact extraction failed (does /repo still compile?)")
            build_index(d)
            info["analysis_s"] = round(time.time() - t0, 1)
            open(done, "w").write(json.dumps(info))
            _gc(keep=d)
        else:
            info.update(json.load(open(done)))
            info["cached"] = True
    finally:
        fcntl.flock(lock, fcntl.LOCK_UN)
    return d, info


def _gc(keep):
    base = os.path.join(CACHE, FACTS_SUB)
    ds = [os.path.join(base, x) for x in os.listdir(base)]
    ds = [x for x in ds if os.path.isdir(x) and x != keep]
    ds.sort(key=os.path.getmtime)
    import shutil
    for x in ds[:-3]:
        shutil.rmtree(x, ignore_errors=True)


def build_index(d):
    """index.json: per record (file, offset, length, t, id). Fails closed on missing crates."""
    idx = []
    counts = {}
    for f in sorted(os.listdir(d)):
        if not f.endswith(".jsonl"):
            continue
        p = os.path.join(d, f)
        off = 0
        with open(p, "rb") as fh:
            for line in fh:
                n = len(line)
                # cheap header parse: records start with {"t":"..","id"/"krate"..}
                head = line[:400].decode("utf8", "replace")
                t = head.split('"t":"', 1)[1].split('"', 1)[0]
                rid = ""
                if t == "fn":
                    rid = head.split('"id":"', 1)[1].split('","krate"', 1)[0]
                    rid = json.loads('"' + rid + '"')
                elif t == "inst":
                    rid = line.decode("utf8").split('"key":"', 1)[1].split('","id":"', 1)[0]
                    rid = json.loads('"' + rid + '"')
                idx.append((f, off, n, t, rid))
                if t == "meta":
                    m = json.loads(line)
                    counts[m["krate"]] = max(counts.get(m["krate"], 0), m["fns"])
                off += n
    for k, floor in EXPECTED.items():
        if counts.get(k, 0) < floor:
            raise SystemExit(f"CHECK-BROKEN: fact file for crate {k} missing or too small "
                             f"({counts.get(k, 0)} < floor {floor}); the driver was skipped?")
    json.dump({"idx": idx, "fn_counts": counts}, open(os.path.join(d, "index.json"), "w"))


class Facts:
    def __init__(self, d=None, verbose=True):
        if d is None:
            d, self.info = ensure_facts(verbose)
        else:
            self.info = {"hash": os.path.basename(d), "cached": True}
        self.dir = d
        ix = json.load(open(os.path.join(d, "index.json")))
        self.idx = ix["idx"]
        self.fn_counts = ix["fn_counts"]
        self._by_t = {}
        self._fn_by_id = None
        self._fh = {}
        self._cache = {}

    def _read(self, ent):
        f, off, n = ent[0], ent[1], ent[2]
        fh = self._fh.get(f)
        if fh is None:
            fh = self._fh[f] = open(os.path.join(self.dir, f), "rb")
        fh.seek(off)
        return json.loads(fh.read(n))

    def records(self, t, krate_prefix=None):
        key = (t, krate_prefix)
        if key not in self._cache:
            out = []
            for ent in self.idx:
                if ent[3] != t:
                    continue
                if krate_prefix and not ent[0].startswith(krate_prefix):
                    continue
                out.append(self._read(ent))
            self._cache[key] = out
        return self._cache[key]

    def fn_index(self):
        if self._fn_by_id is None:
            m = {}
            for ent in self.idx:
                if ent[3] == "fn":
                    m.setdefault(ent[4], []).append(ent)
            self._fn_by_id = m
        return self._fn_by_id

    def fn_ids(self):
        return self.fn_index().keys()

    def fn(self, fid):
        """Function record by def path (first if several crates define the same path)."""
        ents = self.fn_index().get(fid)
        if not ents:
            return None
        k = ("fn1", fid)
        if k not in self._cache:
            self._cache[k] = self._read(ents[0])
        return self._cache[k]

    def fns_matching(self, pred):
        out = []
        for fid, ents in self.fn_index().items():
            if pred(fid):
                for e in ents:
                    k = ("fnE", e[0], e[1])
                    if k not in self._cache:
                        self._cache[k] = self._read(e)
                    out.append(self._cache[k])
        return out

    def _raw(self, ent):
        f, off, n = ent[0], ent[1], ent[2]
        fh = self._fh.get(f)
        if fh is None:
            fh = self._fh[f] = open(os.path.join(self.dir, f), "rb")
        fh.seek(off)
        return fh.read(n)

    def all_fns(self, krates=None, contains=None):
        """All fn records of the given crates (file-name prefixes). `contains`: a byte string (or tuple of byte strings, any of
        which) that must occur in the record's raw JSON text - a cheap pre-filter that avoids decoding records a rule would skip
        anyway (it must only be used for text the rule itself requires to be present)."""
        out = []
        if isinstance(contains, (bytes, str)):
            contains = (contains,)
        if contains:
            contains = tuple(c.encode() if isinstance(c, str) else c for c in contains)
        for ent in self.idx:
            if ent[3] != "fn":
                continue
            if krates and not any(ent[0].startswith(k + "-") for k in krates):
                continue
            k = ("fnE", ent[0], ent[1])
            if k not in self._cache:
                if contains:
                    raw = self._raw(ent)
                    if not any(c in raw for c in contains):
                        continue
                    self._cache[k] = json.loads(raw)
                else:
                    self._cache[k] = self._read(ent)
            elif contains:
                pass
            out.append(self._cache[k])
        return out

    def inst_index(self):
        if "instidx" not in self._cache:
            m = {}
            for ent in self.idx:
                if ent[3] == "inst":
                    m.setdefault(ent[4], []).append(ent)
            self._cache["instidx"] = m
        return self._cache["instidx"]
