"""C16 — no query makes the engine's unsafe code touch memory it does not own (narrow clauses).
  C16-CELL    every method that hands out a reference into an UnsafeCell from `&self` (util/cell.rs and any other
              workspace function calling UnsafeCell::get and returning a reference) is declared `unsafe fn`
  C16-ATOMIC  the `remaining*` hand-off counters that fence exclusive access to UnsafeSyncCell contents use
              ordering ≥ Release on RMW and ≥ Acquire on load
  C16-PHASE   phase-restricted unsafe table operations are only reachable through their gate: init_directory only on
              finish_build()==true; process_hashes / probe / scan_next / drain_next only after the matching ready flag
              (partition-local flag or shared flag) was read true on that path
  C16-UNCHECKED = C19-GUARD (unchecked cursor reads)
Not decided: bounds of raw row/heap block arithmetic (layout values), aliasing in row collections, memory-model proofs."""
import re
from .framework import RuleResult
from .mir import Fn, op_const, switch_edges, resolve_bool

EXPLANATION = ("Declaration rule (reference-returning UnsafeCell accessors stay `unsafe`), table rule on atomic orderings of the hand-off "
               "counters, and must-pass-through gate rules for the phase-restricted operations of the join hash table, all on MIR. These are "
               "the structural preconditions under which the unsafe shared-state code is sound; raw pointer arithmetic over row layouts is a "
               "value question and is not decided.")
NOT_DECIDED = ["raw row/heap block pointer arithmetic (layout values)", "aliasing inside row collections", "memory-model soundness of the lock-free directory insert"]

ORD_RMW_OK = {"Release", "AcqRel", "SeqCst"}
ORD_LOAD_OK = {"Acquire", "SeqCst"}
HJ = "glaredb_core::execution::operators::hash_join::"
GATES = [
    # (function suffix, gated callee suffix, ("fields", {flag names}) | ("call", callee suffix))
    (f"<{HJ}PhysicalHashJoin as glaredb_core::execution::operators::PushOperator>::poll_finalize_push", "JoinHashTable::init_directory", ("call", "JoinHashTable::finish_build")),
    (f"<{HJ}PhysicalHashJoin as glaredb_core::execution::operators::PushOperator>::poll_finalize_push", "JoinHashTable::process_hashes", ("fields", {"hash_inserts_ready"})),
    (f"<{HJ}PhysicalHashJoin as glaredb_core::execution::operators::ExecuteOperator>::poll_execute", "JoinHashTable::probe", ("fields", {"scan_ready"})),
    (f"<{HJ}PhysicalHashJoin as glaredb_core::execution::operators::ExecuteOperator>::poll_execute", "HashTablePartitionScanState::scan_next", ("fields", {"scan_ready"})),
    (f"<{HJ}PhysicalHashJoin as glaredb_core::execution::operators::ExecuteOperator>::poll_execute", "HashTablePartitionDrainState::drain_next", ("fields", {"drain_ready"})),
    # drain_ready alone is not enough: with an empty probe side every prober finalizes (drain_ready) while build partitions
    # still hold get_mut() on the shared row collection; the drain reads it, so it also needs the build-complete flag
    (f"<{HJ}PhysicalHashJoin as glaredb_core::execution::operators::ExecuteOperator>::poll_execute", "HashTablePartitionDrainState::drain_next", ("fields", {"scan_ready"})),
]


def rule_cell(facts):
    r = RuleResult("C16-CELL", "functions returning references obtained through UnsafeCell::get from &self are `unsafe fn`", floor=4)
    for rec in facts.all_fns(["glaredb_core", "glaredb_ext_parquet"], contains="UnsafeCell"):
        if "UnsafeCell" not in str(rec["bbs"]) or rec["dk"] == "Closure":
            continue
        fn = Fn(rec)
        gets = [c for c in fn.calls() if c.name.endswith("UnsafeCell::<T>::get") or c.name.endswith("cell::UnsafeCell::<T>::get")]
        if not gets:
            continue
        ret_ty = fn.locals[0]
        hands_out_ref = "&" in ret_ty
        self_shared = fn.argc >= 1 and fn.locals[1].startswith("&") and not fn.locals[1].startswith("&mut")
        if not (hands_out_ref and self_shared):
            continue
        r.functions.add(fn.id)
        ok = bool(rec.get("unsafe"))
        r.inst({"fn": fn.id, "returns": ret_ty[:60], "declared_unsafe": ok}, ok)
        if not ok:
            r.violate(fn.id, "safe-cell-accessor", f"safe fn returns `{ret_ty}` derived from UnsafeCell::get through `&self`: any safe caller can create aliasing "
                      "&mut / data races on the shared hash-table state", rec["file"], rec["line"])
    return r


def rule_atomic(facts):
    r = RuleResult("C16-ATOMIC", "`remaining*` hand-off counters: RMW ≥ Release, load ≥ Acquire", floor=6)
    other = 0
    for rec in facts.all_fns(["glaredb_core"], contains="atomic::Atomic"):
        if "atomic::Atomic" not in str(rec["bbs"]) or "testutil" in rec["id"]:
            continue
        fn = Fn(rec)
        for c in fn.calls():
            m = re.search(r"sync::atomic::Atomic\w*(?:::<[^>]*>)?::(load|store|fetch_sub|fetch_add|swap|compare_exchange|compare_exchange_weak|fetch_update)$", c.name)
            if not m:
                continue
            o = fn.origin(c.args[0], through_calls=("::deref",), at=c.bb)
            flds = [p[1] for p in (o[2] if len(o) > 2 and isinstance(o[2], list) else []) if isinstance(p, list) and p[0] == "f"]
            ords = []
            for a in c.args[1:]:
                oo = fn.origin(a, at=c.bb)
                if oo[0] == "rv" and oo[1][0] == "agg" and oo[1][1][1].endswith("atomic::Ordering"):
                    ords.append(oo[1][1][2])
            if not any(f.startswith("remaining") for f in flds):
                other += 1
                continue
            r.functions.add(fn.id)
            r.call_sites += 1
            op = m.group(1)
            need = ORD_LOAD_OK if op == "load" else ORD_RMW_OK
            ok = bool(ords) and ords[0] in need
            r.inst({"fn": fn.id, "counter": flds[-1], "op": op, "ordering": ords, "line": c.line}, ok)
            if not ok:
                r.violate(fn.id, f"{flds[-1]}.{op}", f"{op} on the hand-off counter `{flds[-1]}` uses ordering {ords}: the partition that sees the counter reach zero "
                          f"needs {'Acquire' if op == 'load' else 'Release'} (or stronger) to observe the other partitions' writes to the UnsafeSyncCell contents", rec["file"], c.line)
    r.notes.append(f"{other} other atomic operations (directory CAS/loads, id generators, scan cursors) recorded but not constrained")
    return r


def _true_edges_for_fields(fn, names):
    out = set()
    for b in range(fn.n):
        t = fn.term(b)
        if t[0] != "switch" or t[4] != "bool" or t[1][0] not in ("c", "m") or t[1][1][1]:
            continue
        cur, inv, hit = t[1][1][0], False, False
        for _ in range(5):
            ds = [d for d in fn.defs.get(cur, []) if d[0] == "a" and not (d[3][0] == "use" and d[3][1][0] == "k")]
            if len(ds) != 1:
                break
            rv = ds[0][3]
            if rv[0] == "un" and rv[1] == "Not":
                inv = not inv
                cur = rv[2][1][0]
                continue
            if rv[0] == "use" and rv[1][0] in ("c", "m"):
                flds = [p[1] for p in rv[1][1][1] if isinstance(p, list) and p[0] == "f"]
                if flds and flds[-1] in names:
                    hit = True
                    break
                if not rv[1][1][1] or rv[1][1][1] == ["*"]:
                    # deref of a reference local bound from a pattern (`scan_ready: &mut bool`): use its debug name
                    nm = fn.local_name(rv[1][1][0])
                    if nm in names:
                        hit = True
                        break
                    o = fn.origin(rv[1], at=b)
                    f2 = [p[1] for p in (o[2] if len(o) > 2 and isinstance(o[2], list) else []) if isinstance(p, list) and p[0] == "f"]
                    if f2 and f2[-1] in names:
                        hit = True
                        break
                    cur = rv[1][1][0]
                    continue
            break
        if hit:
            for v, tgt in switch_edges(t):
                if (v != 0) != inv:
                    out.add((b, tgt))
    return out


def _latch_edges(fn, edges):
    """A per-partition latch (`if !*ready { <gate>; *ready = true }`) carries the gate to later polls: the true-edges of a
    switch on `*L` count as gate edges when every store of `true` through L is itself behind the gate."""
    out = set(edges)
    changed = True
    while changed:
        changed = False
        ungated = fn.reach(0, avoid_edges=out)
        for b in range(fn.n):
            t = fn.term(b)
            if t[0] != "switch" or t[4] != "bool" or t[1][0] not in ("c", "m") or t[1][1][1]:
                continue
            cur, inv, L = t[1][1][0], False, None
            for _ in range(4):
                ds = [d for d in fn.defs.get(cur, []) if d[0] == "a"]
                if len(ds) != 1:
                    break
                rv = ds[0][3]
                if rv[0] == "un" and rv[1] == "Not":
                    inv, cur = not inv, rv[2][1][0]
                    continue
                if rv[0] == "use" and rv[1][0] in ("c", "m") and rv[1][1][1] == ["*"]:
                    L = rv[1][1][0]
                break
            if L is None:
                continue
            stores = [(sb, rv) for sb, i, pl, rv, ln in fn.assigns() if pl[0] == L and pl[1] == ["*"]]
            trues = [sb for sb, rv in stores if not (rv[0] == "use" and rv[1][0] == "k" and rv[1][1].get("v") in (False, 0, "false"))]
            if not trues or any(sb in ungated for sb in trues):
                continue
            for v, tgt in switch_edges(t):
                if (v != 0) != inv and (b, tgt) not in out:
                    out.add((b, tgt))
                    changed = True
    return out


def rule_phase(facts):
    r = RuleResult("C16-PHASE", "phase-restricted hash table operations are reachable only through their gate", floor=6)
    for fsuf, callee, gate in GATES:
        rec = facts.fn(fsuf)
        if rec is None:
            r.missing_anchor(fsuf)
            continue
        fn = Fn(rec)
        r.functions.add(fn.id)
        sites = [c for c in fn.calls() if c.name.endswith(callee)]
        if not sites:
            r.missing_anchor(f"call of {callee} in {fsuf.rsplit('::', 1)[-1]}")
            continue
        if gate[0] == "fields":
            edges = _latch_edges(fn, _true_edges_for_fields(fn, gate[1]))
        else:
            edges = set()
            for b in range(fn.n):
                t = fn.term(b)
                if t[0] == "switch" and t[4] == "bool" and t[1][0] in ("c", "m") and not t[1][1][1]:
                    o = fn.origin(t[1], through_calls=("::branch", "::unwrap"), at=b)
                    if o[0] == "call" and o[1].name.endswith(gate[1]):
                        for v, tgt in switch_edges(t):
                            if v != 0:
                                edges.add((b, tgt))
        for c in sites:
            r.call_sites += 1
            ok = bool(edges) and c.bb not in fn.reach(0, avoid_edges=edges)
            r.inst({"fn": fn.id, "gated_call": callee, "line": c.line, "gate": sorted(gate[1]) if gate[0] == "fields" else gate[1], "gate_edges": len(edges)}, ok)
            if not ok:
                r.violate(fn.id, f"ungated:{callee.rsplit('::', 1)[-1]}", f"{callee} is reachable on a path that did not see "
                          f"{sorted(gate[1]) if gate[0] == 'fields' else gate[1] + '() == true'}: the operation touches hash-table memory another partition may still be writing "
                          "(or a directory that does not exist yet)", rec["file"], c.line)
    return r


PT = "glaredb_core::arrays::array::physical_type::PhysicalType"
ROWMOD = "glaredb_core::arrays::row::row_layout::"


def _pt_switches(fn):
    """[(block, switch terminator)] that dispatch on the discriminant of a PhysicalType value"""
    from .mir import disc_switches
    out = []
    for b, pl, t in disc_switches(fn):
        ty = fn.locals[pl[0]].strip().lstrip("&") if not pl[1] else ""
        if not ty:
            o = fn.origin(["c", pl], at=b)
            ty = ""
        if ty == PT or (pl[1] and PT in str(pl)):
            out.append((b, t))
    return out


def rule_heapsz(facts):
    """The unsafe row writer copies non-inline varlen values into a heap block that was sized beforehand by safe code. For every
    physical type whose writer arm touches the heap pointers, the sizing function must either add to `sizes` or fail: a type that
    falls through to the do-nothing arm gets a zero-byte heap allocation and the writer copies past its end."""
    from .mir import adt_variants
    r = RuleResult("C16-HEAPSZ", "every physical type whose row-writer arm uses the heap pointers is sized (or rejected) by the heap-size computation", floor=2)
    variants = adt_variants(facts, PT)
    if not variants:
        r.missing_anchor("PhysicalType enum")
        return r
    by_disc = {d: n for n, d in variants.items()}
    writers, sizers = [], []
    for rec in facts.fns_matching(lambda i: i.startswith(ROWMOD)):
        if rec["dk"] == "Closure" or "::tests::" in rec["id"]:
            continue
        fn = Fn(rec)
        sw = _pt_switches(fn)
        if not sw:
            continue
        heap_args = [l for l in range(1, fn.argc + 1) if "heap" in fn.varnames.get(l, "")]
        size_args = [l for l in range(1, fn.argc + 1) if fn.locals[l].replace(" ", "") == "&mut[usize]"]
        if heap_args and rec.get("unsafe"):
            writers.append((fn, sw, heap_args))
        if size_args:
            sizers.append((fn, sw, size_args))
    if not writers:
        r.missing_anchor("unsafe row writer dispatching on PhysicalType with a heap-pointers parameter in arrays::row::row_layout")
        return r
    if not sizers:
        r.missing_anchor("heap-size computation (fn with a `&mut [usize]` parameter dispatching on PhysicalType) in arrays::row::row_layout")
        return r
    heap_types = set()
    for fn, sw, heap_args in writers:
        r.functions.add(fn.id)
        for b, t in sw:
            tgt_of = {v: tg for v, tg in switch_edges(t)}
            for d, name in by_disc.items():
                tg = tgt_of.get(d, tgt_of.get(None))
                region = fn.reachable_from(tg, avoid=[b])
                for c in fn.calls():
                    if c.bb in region and any(a[0] in ("c", "m") and fn.origin(a, at=c.bb)[0:2] == ("arg", h) for a in c.args for h in heap_args):
                        heap_types.add(name)
    if not heap_types:
        r.missing_anchor("a writer arm that passes the heap pointers on")
        return r
    for fn, sw, size_args in sizers:
        r.functions.add(fn.id)
        writes = set()
        for b, i, pl, rv, ln in fn.assigns():
            if pl[1] and any(isinstance(p, list) and p[0] == "i" for p in pl[1]) and fn.origin(pl[0], at=b)[0:2] in [("arg", a) for a in size_args]:
                writes.add(b)
        for b, t in sw:
            tgt_of = {v: tg for v, tg in switch_edges(t)}
            for name in sorted(heap_types):
                d = variants[name]
                tg = tgt_of.get(d, tgt_of.get(None))
                region = fn.reachable_from(tg, avoid=[b])
                sized = bool(region & writes)
                # rejected: the arm cannot get back to the dispatch nor to a normal return except through an error value
                rejected = not sized and b not in fn.reachable_from(tg) and _only_err_exits(fn, region)
                ok = sized or rejected
                r.call_sites += 1
                r.inst({"sizer": fn.id, "type": name, "sized": sized, "rejected": rejected}, ok)
                if not ok:
                    r.violate(fn.id, f"unsized-heap-type:{name}", f"the row writer copies {name} values into the heap block, but the heap-size computation neither adds "
                              f"their length to `sizes` nor fails for {name}: the heap block is allocated too small and the unsafe copy writes past it",
                              fn.rec["file"], t[5] if len(t) > 5 else fn.rec["line"])
    return r


def _only_err_exits(fn, region):
    """no block of the region builds an Ok value into the return place"""
    for b in region:
        for s_ in fn.bbs[b]["s"]:
            if s_[0] == "a" and s_[1] == [0, []] and s_[2][0] == "agg" and s_[2][1][0] == "adt" and s_[2][1][2] == "Ok":
                return False
    return True


STORAGE_WIDTH = {"PhysicalI8": 1, "PhysicalI16": 2, "PhysicalI32": 4, "PhysicalI64": 8, "PhysicalI128": 16, "PhysicalU8": 1, "PhysicalU16": 2,
                 "PhysicalU32": 4, "PhysicalU64": 8, "PhysicalU128": 16, "PhysicalF16": 2, "PhysicalF32": 4, "PhysicalF64": 8, "PhysicalBool": 1,
                 "PhysicalInterval": 16}
PLAIN_WIDTH = {"PlainTypeI32": 4, "PlainTypeI64": 8, "PlainTypeF32": 4, "PlainTypeF64": 8, "PlainTypeBool": 1, "PlainTypeInt96": 12}


def rule_readwidth(facts):
    """`PrimitiveValueReader<S, T>` copies size_of::<S::StorageType>() bytes per value out of the page with an unchecked read, while the
    page (and every remaining-bytes guard computed from the Parquet physical type T) holds size_of::<T::Native>() bytes per value. An
    instantiation whose two widths differ reads past the end of the page buffer after a fraction of the values."""
    r = RuleResult("C16-READWIDTH", "every instantiation of the unchecked primitive value reader pairs a storage type and a Parquet physical type of the same byte width", floor=4)
    seen = {}
    for rec in facts.all_fns(["glaredb_ext_parquet"], contains="PrimitiveValueReader<"):
        if "PrimitiveValueReader<" not in str(rec["bbs"]) or "::tests::" in rec["id"] or "testutil" in rec["id"]:
            continue
        fn = Fn(rec)
        for c in fn.calls():
            for a in (c.gargs or []):
                for m in re.finditer(r"PrimitiveValueReader<([\w:]+), ([\w:]+)>", a):
                    seen.setdefault((m.group(1).rsplit("::", 1)[-1], m.group(2).rsplit("::", 1)[-1]), (rec, c.line))
    for (st, pt), (rec, line) in sorted(seen.items()):
        r.functions.add(rec["id"])
        r.call_sites += 1
        sw, pw = STORAGE_WIDTH.get(st), PLAIN_WIDTH.get(pt)
        if pt == "PlainTypeFixedLenByteArray" and st == "PhysicalF16":
            r.exempt(f"PrimitiveValueReader<{st}, {pt}>", "FLOAT16 is FIXED_LEN_BYTE_ARRAY(2) by the Parquet specification; the 2-byte type length is part of the logical type")
            r.inst({"storage": st, "plain": pt, "widths": [2, "type_length (2 for FLOAT16)"]})
            continue
        ok = sw is not None and pw is not None and sw == pw
        r.inst({"storage": st, "plain": pt, "widths": [sw, pw]}, ok)
        if not ok:
            r.violate(rec["id"], f"width-mismatch:{st}/{pt}", f"PrimitiveValueReader<{st}, {pt}> (instantiated at line {line}) reads {sw} bytes per value with an unchecked cursor read "
                      f"from pages that hold {pw} bytes per value: out-of-bounds read of the page buffer", rec["file"], line)
    return r


def run(ctx):
    facts = ctx["facts"]
    res = [rule_cell(facts), rule_atomic(facts), rule_phase(facts), rule_heapsz(facts), rule_readwidth(facts), rule_heapinit(facts)]
    return res



def rule_heapinit(facts):
    """`Block::try_new_reserve_all` hands out reserved but uninitialised memory. In `SortedBlock::sort_from_blocks` the reordered heap-key
    and data blocks are allocated that way and become part of the returned block, whose heap-key rows (validity byte + StringPtr) are
    dereferenced by the merge when two rows of different blocks tie on the key prefix. Whether such a block is filled may therefore
    depend only on the layout (no heap keys / no data columns at all) - never on what happened while this block was sorted. Decided: every
    branch between the allocation and its `apply_sort_indices` that can skip the fill is an error propagation or is computed from a layout
    query (any_requires_heap / num_columns)."""
    from .mir import Fn, switch_edges
    r = RuleResult("C16-HEAPINIT", "the reordered key/data blocks of a sorted block are filled unless the layout has nothing to store there", floor=2)
    recs = facts.fns_matching(lambda i: i.endswith("sorted_block::SortedBlock::sort_from_blocks"))
    if not recs:
        r.missing_anchor("SortedBlock::sort_from_blocks")
        return r
    rec = recs[0]
    fn = Fn(rec)
    r.functions.add(fn.id)
    allocs = [c for c in fn.calls() if c.name.endswith("Block::try_new_reserve_all")]
    fills = [c for c in fn.calls() if c.name.endswith("apply_sort_indices")]
    if not allocs or not fills:
        r.missing_anchor("sort_from_blocks: try_new_reserve_all / apply_sort_indices")
        return r
    LAYOUT = ("any_requires_heap", "num_columns", "requires_heap", "is_empty")
    for fl in fills:
        pre = [a for a in allocs if fn.dominates(a.bb, fl.bb)]
        if not pre:
            continue
        a = pre[0]
        for x in pre:
            if fn.dominates(a.bb, x.bb):
                a = x                                   # the closest dominating allocation
        bad = []
        for b in fn.reachable_from(a.bb):
            t = fn.term(b)
            if t[0] != "switch" or t[1][0] not in ("c", "m") or not fn.dominates(a.bb, b):
                continue
            if not any(fn.edge_dominates(b, tgt, fl.bb) for _v, tgt in switch_edges(t)):
                continue
            o = fn.origin(t[1], at=b)
            kind = None
            if o[0] == "rv" and o[1][0] == "disc":
                src = fn.origin(["c", [o[1][1][0], []]], at=b)
                if src[0] == "call" and src[1].name.endswith("::branch"):
                    kind = "error propagation"
            if o[0] == "call" and o[1].name.rsplit("::", 1)[-1] in LAYOUT:
                kind = "layout"
            if o[0] == "rv" and o[1][0] == "bin":
                for x in o[1][2:4]:
                    if x[0] in ("c", "m"):
                        ox = fn.origin(x, at=b)
                        if ox[0] == "call" and ox[1].name.rsplit("::", 1)[-1] in LAYOUT:
                            kind = "layout"
            if kind is None:
                bad.append(b)
        ok = not bad
        r.call_sites += 1
        r.inst({"fn": fn.id, "fill_line": fl.line, "alloc_line": a.line, "non_layout_guard_blocks": bad}, ok)
        if not ok:
            r.violate(fn.id, "fill-skipped-by-runtime-flag", f"the fill at line {fl.line} of the block allocated (uninitialised) at line {a.line} can be skipped by a condition that is "
                      "not a layout query: the returned block then carries uninitialised heap-key rows that the merge dereferences", rec["file"], fl.line)
    return r

CLAIM = {
    "text": "Structural soundness preconditions of the unsafe shared-state code, decided on MIR for every path: UnsafeCell accessors that "
            "hand out references are `unsafe fn` (callers must state the invariant), the hand-off counters use Release/Acquire, and the "
            "phase-restricted hash-table operations are dominated by their readiness gates (the drain needs both drain_ready and scan_ready; "
            "per-partition latches carry a gate only if every store of true is behind it). Pointer arithmetic inside row layouts depends on "
            "runtime sizes and is not decided. One bounds clause is decidable by sibling agreement and is decided: every physical type whose unsafe row-writer arm uses the heap pointers is sized (or rejected) by the safe heap-size computation that allocates the heap block. And: every instantiation of the unchecked primitive Parquet value reader pairs a storage type and a physical type of the same byte width."
            " Plus HEAPINIT: the reordered (uninitialised-on-allocation) key/data blocks of a sorted block are filled unless the layout has nothing to store.",
    "note": "trusted: rustc MIR; the gate table in rules/c16.py (confirmed by reading hash_join/mod.rs); counters identified by field name prefix `remaining`",
    "technique": "static analysis: declaration rule + ordering table + MIR must-pass-through gates (rustc_private driver)",
}
