"""C10 — reading a valid Parquet file returns exactly the rows it encodes (narrow clause).
  C10-ENC  in PageReader::init_page_decoder every constructed page decoder is reachable only for
           (encoding, physical type) pairs that the Parquet specification allows, the width-specific decoders
           match their type (ByteStreamSplit4 ↔ INT32/FLOAT, …), and unknown encodings yield Err.
Not decided: decoder arithmetic, resumption across batches, definition/repetition levels."""
from .framework import RuleResult
from .mir import Fn, switch_edges, disc_switches, controlling_calls, promoted_variant, adt_variants

EXPLANATION = ("From the MIR of PageReader::init_page_decoder: for each PageDecoder construction the set of encodings and physical types under "
               "which it is reachable is computed from the discriminant switches / equality tests that dominate it, and compared with the "
               "encoding×type table of the Parquet format specification. A decoder reachable for a type the spec forbids would silently "
               "mis-decode a valid file written by another implementation. Decoder arithmetic is not decided.")
NOT_DECIDED = ["value decoding arithmetic", "batch resumption", "level decoding", "dictionary fallback across pages"]

ENC = "glaredb_ext_parquet::basic::Encoding"
TY = "glaredb_ext_parquet::basic::Type"
ALLT = {"BOOLEAN", "INT32", "INT64", "INT96", "FLOAT", "DOUBLE", "BYTE_ARRAY", "FIXED_LEN_BYTE_ARRAY"}
SPEC = {   # https://parquet.apache.org/docs/file-format/data-pages/encodings/
    "PLAIN": ALLT, "PLAIN_DICTIONARY": ALLT, "RLE_DICTIONARY": ALLT,
    "RLE": {"BOOLEAN"},
    "DELTA_BINARY_PACKED": {"INT32", "INT64"},
    "DELTA_LENGTH_BYTE_ARRAY": {"BYTE_ARRAY"},
    "DELTA_BYTE_ARRAY": {"BYTE_ARRAY", "FIXED_LEN_BYTE_ARRAY"},
    "BYTE_STREAM_SPLIT": {"INT32", "INT64", "FLOAT", "DOUBLE", "FIXED_LEN_BYTE_ARRAY"},
}
WIDTH = {"ByteStreamSplit4": {"INT32", "FLOAT"}, "ByteStreamSplit8": {"INT64", "DOUBLE"}, "DeltaBinaryPackedI32": {"INT32"},
         "DeltaBinaryPackedI64": {"INT64"}, "RleBool": {"BOOLEAN"}}


def _allowed(fn, site_bb, adt, variants):
    """set of variant names of enum `adt` under which site_bb is reachable, from dominating discriminant switches"""
    by_discr = {d: n for n, d in variants.items()}
    allowed = set(variants)
    for sb, pl, t in disc_switches(fn):
        ty = fn.locals[pl[0]].replace("&", "").strip()
        o = fn.origin(["c", [pl[0], []]], at=sb)
        otype = fn.locals[o[1]] if o[0] in ("arg", "local") else (fn.locals[o[1].dst[0]] if o[0] == "call" else "")
        if not (ty.endswith(adt) or otype.replace("&", "").strip().endswith(adt)):
            continue
        if not fn.dominates(sb, site_bb):
            continue
        listed = {v for v, _ in switch_edges(t) if v is not None}
        ok = set()
        for v, tgt in switch_edges(t):
            if site_bb in fn.reach(tgt, avoid_blocks=[sb]):
                if v is None:
                    ok |= {n for n, d in variants.items() if d not in listed}
                elif v in by_discr:
                    ok.add(by_discr[v])
        allowed &= ok
    # equality tests: `physical_type() != Type::X` / `== Type::X`
    for c, truth in controlling_calls(fn, site_bb):
        if c.decl in ("std::cmp::PartialEq::ne", "std::cmp::PartialEq::eq") and adt in str(c.callee.get("args")):
            vs = []
            for a in c.args:
                o = fn.origin(a, at=c.bb)
                if o[0] == "const":
                    vs.append(promoted_variant(o[1]))
            vs = [v for v in vs if v]
            if len(vs) == 1:
                equal = truth if c.decl.endswith("::eq") else not truth
                allowed &= ({vs[0]} if equal else set(variants) - {vs[0]})
    return allowed


def run(ctx):
    facts = ctx["facts"]
    r = RuleResult("C10-ENC", "every page decoder is constructed only for (encoding, physical type) pairs allowed by the Parquet spec", floor=8)
    recs = facts.fns_matching(lambda i: "column::page_reader::PageReader" in i and i.endswith("::init_page_decoder"))
    encs = adt_variants(facts, ENC)
    tys = adt_variants(facts, TY)
    if not recs or not encs or not tys:
        r.missing_anchor("PageReader::init_page_decoder / basic::Encoding / basic::Type")
        return [r]
    rec = recs[0]
    fn = Fn(rec)
    r.functions.add(fn.id)
    sites = []
    for b, i, pl, rv, ln in fn.assigns():
        if rv[0] == "agg" and rv[1][0] == "adt" and rv[1][1].endswith("PageDecoder"):
            sites.append((b, rv[1][2], ln))
    for b, variant, ln in sites:
        es = _allowed(fn, b, ENC, encs)
        ts = _allowed(fn, b, TY, tys)
        bad = []
        for e in sorted(es):
            spec = SPEC.get(e)
            if spec is None:
                bad.append(f"encoding {e} is not in the specification table used by this rule")
            elif not ts <= spec:
                bad.append(f"{e} decoder reachable for {sorted(ts - spec)} (spec allows {sorted(spec)})")
        if variant in WIDTH and not ts <= WIDTH[variant]:
            bad.append(f"{variant} reachable for {sorted(ts - WIDTH[variant])}")
        r.inst({"decoder": variant, "line": ln, "encodings": sorted(es), "physical_types": sorted(ts) if ts != set(tys) else "all"}, not bad)
        for m in bad:
            r.violate(fn.id, f"PageDecoder::{variant}", m + ": pages a conforming writer never produces this way would be decoded with the wrong decoder, "
                      "or a valid page of that type is misread", rec["file"], ln)
    # unknown encodings: the otherwise edge of the encoding switch builds no decoder
    for sb, pl, t in disc_switches(fn):
        o = fn.origin(["c", [pl[0], []]], at=sb)
        if o[0] == "arg" and fn.locals[o[1]].endswith("basic::Encoding"):
            other = [tgt for v, tgt in switch_edges(t) if v is None]
            if other:
                reach = fn.reach(other[0], avoid_blocks=[sb])
                builds = [v for b, v, ln in sites if b in reach]
                ok = not builds
                r.inst({"unknown_encoding_edge": "returns Err, builds no decoder" if ok else f"builds {builds}"}, ok)
                if not ok:
                    r.violate(fn.id, "unknown-encoding", f"an encoding not handled explicitly still constructs {builds}", rec["file"], t[5])
    return [r, rule_carry(facts), rule_cursor(facts, "C10-CURSOR", ["glaredb_ext_parquet"], 8), rule_dictfresh(facts), rule_sibarms(facts), rule_bitpos(facts)]


def rule_carry(facts):
    """see rules/c10carry.py"""
    from .c10carry import carry_instances
    r = RuleResult("C10-CARRY", "decoder fields that carry state from value to value inside a read loop are not re-initialised between the entry of "
                   "the read call and that loop (decoding is independent of how the values are split over read calls)", floor=10)
    for rec in facts.all_fns(["glaredb_ext_parquet"]):
        if "::column::" not in rec["id"] or "::tests::" in rec["id"] or "testutil" in rec["id"]:
            continue
        fn = Fn(rec)
        for inst in carry_instances(fn):
            r.functions.add(fn.id)
            bad = inst["reinit_before_loop"]
            r.inst({k: v for k, v in inst.items() if k not in ("file", "line")}, not bad)
            if bad:
                r.violate(fn.id, f"carried-state-reset:{inst['field']}",
                          f"`self.{inst['field']}` is updated from its previous content inside the value loop ({inst['update']}) and read there "
                          f"({inst['read_in_loop']}), but it is re-initialised on the way from the function entry to the loop ({', '.join(bad)}): the "
                          "first value of every read call is decoded from reset state, so the decoded values depend on where the previous call stopped",
                          inst["file"], inst["line"])
    return r



def rule_cursor(facts, rule, crates, floor):
    """see rules/cursor.py"""
    from .cursor import cursor_sites
    r = RuleResult(rule, "a loop that decrements its remaining-count by the amount it hands to a copy/read call advances the offset argument of that "
                   "call by the same amount (no slice of the input is processed twice, none is skipped)", floor=floor)
    for s_ in cursor_sites(facts, crates):
        r.functions.add(s_["fn"])
        r.call_sites += 1
        r.inst({k: v for k, v in s_.items() if k != "file"}, s_["advanced"])
        if not s_["advanced"]:
            r.violate(s_["fn"], f"cursor-not-advanced:{s_['callee']}:{s_['offset_param']}",
                      f"the loop subtracts `{s_['amount']}` from `{s_['remaining']}` and passes it to `{s_['callee']}` (line {s_['line']}), but the `{s_['offset_param']}` "
                      f"argument of that call is never advanced by `{s_['amount']}` inside the loop: every further iteration handles the same slice again "
                      "(rows duplicated, the tail lost, counts unchanged)", s_["file"], s_["line"])
    return r


def rule_dictfresh(facts):
    """The dictionary array keeps one extra slot that is marked invalid and stands for NULL. Marking is cumulative: a slot marked for an
    earlier, smaller dictionary stays invalid unless the validity mask is rebuilt. Every path that loads a new dictionary and marks its
    NULL slot therefore first replaces the array (or its validity); otherwise a real entry of a later, larger dictionary sits on a stale
    invalid bit and every row that references it reads as NULL."""
    r = RuleResult("C10-DICTFRESH", "every path that loads a dictionary page and marks the NULL slot first replaces the dictionary array or rebuilds its validity", floor=1)
    recs = facts.fns_matching(lambda i: "column::encoding::dictionary::Dictionary" in i and i.endswith("::prepare_with_values"))
    if not recs:
        r.missing_anchor("Dictionary::prepare_with_values")
        return r
    for rec in recs:
        fn = Fn(rec)
        r.functions.add(fn.id)
        marks = [c for c in fn.calls() if c.name.endswith("Validity::set_invalid")]
        fresh = [c.bb for c in fn.calls() if c.name.endswith(("Array::new", "Array::put_validity", "Validity::new_all_valid", "Array::new_null", "Array::reset_for_write"))]
        if not marks:
            r.missing_anchor("the set_invalid call that marks the NULL slot in Dictionary::prepare_with_values")
            continue
        for m in marks:
            r.call_sites += 1
            ok = m.bb not in fn.reachable_from(0, avoid=fresh)
            r.inst({"fn": fn.id, "mark_line": m.line, "array_or_validity_replaced_on_every_path": ok}, ok)
            if not ok:
                r.violate(fn.id, "stale-dictionary-validity", f"a path reaches the NULL-slot marking at line {m.line} without replacing the dictionary array or its validity: slots "
                          "invalidated for an earlier dictionary stay invalid and valid entries of the new dictionary decode as NULL", rec["file"], m.line)
    return r


def rule_sibarms(facts):
    """Every page decoder handles two cases, with and without definition levels (NULLs). Apart from skipping NULL positions, the two arms
    advance the same decoder state: the set of state-mutating calls on `self` (field, method) of the two arms must be equal. An arm that
    lacks an update the other one performs (cursor advance, previous-value buffer, running index) decodes a nullable column
    differently from a required one."""
    from .mir import disc_switches
    r = RuleResult("C10-SIBARMS", "the HasDefinitions and NoDefinitions arms of every page decoder perform the same set of state-mutating calls on self", floor=4)
    for rec in facts.all_fns(["glaredb_ext_parquet"], contains="Definitions"):
        if "::tests::" in rec["id"] or "testutil" in rec["id"] or "::column::encoding::" not in rec["id"]:
            continue
        fn = Fn(rec)
        for b, pl, t in disc_switches(fn):
            ty = fn.locals[pl[0]] if not pl[1] else ""
            if "Definitions" not in ty:
                continue
            arms = {v: fn.reachable_from(tgt, avoid=[b]) for v, tgt in switch_edges(t) if v is not None}
            if len(arms) < 2:
                continue
            common = set.intersection(*arms.values())
            out = {}
            for v, region in arms.items():
                names = set()
                for c in fn.calls():
                    if c.bb not in region - common:
                        continue
                    for a in c.args:
                        if a[0] in ("c", "m") and not a[1][1] and fn.locals[a[1][0]].lstrip().startswith("&mut"):
                            o = fn.origin(a, at=c.bb, through_calls=("::deref_mut", "::as_mut", "::as_mut_slice"))
                            if o[0] == "arg" and o[1] == 1:
                                flds = [p_[1] for p_ in (o[2] if len(o) > 2 and isinstance(o[2], list) else []) if isinstance(p_, list) and p_[0] == "f"]
                                if flds:
                                    names.add(f"{flds[0]}.{c.name.rsplit('::', 1)[-1]}")
                out[v] = names
            vs = list(out.values())
            inter = set.intersection(*vs)
            diff = sorted(set.union(*vs) - inter)
            r.functions.add(fn.id)
            r.inst({"fn": fn.id, "mutating_calls_per_arm": {str(k): len(v) for k, v in out.items()}, "only_in_one_arm": diff}, not diff)
            if diff:
                r.violate(fn.id, "arms-disagree:" + ",".join(diff), f"the two Definitions arms differ in the decoder state they update ({', '.join(diff)} in one arm only): nullable and required "
                          "columns of the same encoding are decoded differently", rec["file"], t[5] if len(t) > 5 else rec["line"])
    return r


def rule_bitpos(facts):
    """The RLE / bit-packed hybrid decoder (definition and repetition levels, dictionary indices, booleans) is read in pieces: a page is
    usually larger than what is left of the current output batch. A read may stop in the middle of a byte of a literal run, so the
    sub-byte position has to survive the call: `bit_unpack` works on a temporary state whose `bit_pos` is loaded from the decoder before
    the call and stored back after it. Pairing rule on RleBitPackedDecoder::read: (a) an assignment of the temporary state's bit_pos from
    a field of self reaches the bit_unpack call, (b) an assignment of a field of self from the temporary state's bit_pos is reachable
    from it."""
    from .mir import Fn
    r = RuleResult("C10-BITPOS", "the RLE/bit-packed decoder carries the sub-byte position of a literal run across read() calls", floor=1)
    recs = facts.fns_matching(lambda i: "rle_bit_packed::RleBitPackedDecoder" in i and i.endswith("::read"))
    if not recs:
        r.missing_anchor("RleBitPackedDecoder::read")
        return r
    for rec in recs:
        fn = Fn(rec)
        calls = [c for c in fn.calls() if c.name.endswith("bitutil::bit_unpack") or c.name.endswith("::bit_unpack")]
        if not calls:
            continue
        r.functions.add(fn.id)
        loads, stores = [], []
        for b, i, pl, rv, ln in fn.assigns():
            pproj = pl[1] if len(pl) > 1 else []
            to_state = any(isinstance(p_, list) and p_[0] == "f" and p_[1] == "bit_pos" and p_[2].endswith("BitUnpackState") for p_ in pproj)
            to_self = any(isinstance(p_, list) and p_[0] == "f" and p_[2].endswith("RleBitPackedDecoder") for p_ in pproj)
            if rv[0] != "use" or rv[1][0] not in ("c", "m"):
                continue
            o = str(fn.origin(rv[1], at=b))
            if to_state and "RleBitPackedDecoder" in o and "'arg'" in o[:8]:
                loads.append(b)
            if to_self and "'bit_pos'" in o and "BitUnpackState" in o:
                stores.append(b)
        for c in calls:
            a = any(c.bb in fn.reachable_from(l) or l == c.bb for l in loads)
            b_ = any(s_ in fn.reachable_from(c.bb) for s_ in stores)
            ok = a and b_
            r.call_sites += 1
            r.inst({"fn": fn.id, "line": c.line, "position_loaded_from_decoder": a, "position_stored_back": b_}, ok)
            if not ok:
                r.violate(fn.id, "bit-position-not-carried", f"bit_unpack at line {c.line} runs on a fresh state each time: a read() that stops inside a byte of a literal run resumes at "
                          "bit 0 of that byte, re-decodes delivered values and shifts the rest of the run (wrong NULL positions / dictionary indices)", rec["file"], c.line)
    if not r.instances:
        r.missing_anchor("RleBitPackedDecoder::read: no bit_unpack call")
    return r

CLAIM = {
    "text": "Table-agreement rule on MIR: the (encoding, physical type) reachability of every PageDecoder construction site, derived from the "
            "dominating discriminant switches and equality tests, is compared with the Parquet specification's encoding table and with the "
            "decoder's width. This is decidable from code shape for every file; whether the decoders compute the right values is not decided. "
            "Plus a resumability rule: a decoder field with a loop-carried update that is read inside the per-value loop is not re-initialised "
            "between the entry of `read` and the loop (decoding does not depend on how values are split over read calls). Plus the chunked-read cursor pairing of the column reader: a loop that subtracts the amount it hands to a page decoder from its remaining count advances the offset argument by the same amount. And every path that loads a dictionary page and marks the NULL slot first replaces the dictionary array or its validity."
            " Plus SIBARMS: the HasDefinitions and NoDefinitions arms of every page decoder perform the same state-mutating calls."
            " Plus BITPOS: the RLE/bit-packed decoder carries the sub-byte position of a literal run across read() calls.",
    "note": "trusted: rustc MIR; the specification table in rules/c10.py (Parquet format encodings page)",
    "technique": "static analysis: MIR reachability under discriminant constraints vs. a specification table (rustc_private driver)",
}
