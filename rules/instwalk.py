"""Access to the instantiation walk: registry rows → reachable monomorphic instances."""
from .mir import Fn


class InstDB:
    def __init__(self, facts):
        self.facts = facts
        self.ix = facts.inst_index()
        self._cache = {}
        self._consts = None

    def load(self, key):
        if key not in self._cache:
            e = self.ix.get(key)
            self._cache[key] = self.facts._read(e[0]) if e else None
        return self._cache[key]

    def const_callees(self, key):
        if self._consts is None:
            self._consts = {c["key"]: c["callees"] for c in self.facts.records("instconst")}
        return self._consts.get(key, [])

    def reachable(self, row, within=None, skip_methods=()):
        """instance records reachable from a row's methods (BFS over `callees`)"""
        seen, out = set(), []
        st = [m["inst"] for m in row["methods"] if m["name"] not in skip_methods]
        while st:
            k = st.pop()
            if k in seen:
                continue
            seen.add(k)
            if k.startswith("const:"):
                st.extend(self.const_callees(k))
                continue
            rec = self.load(k)
            if rec is None:
                continue
            if within is None or within(rec):
                out.append(rec)
            st.extend(rec["callees"])
        return out


def variant_of(e):
    if isinstance(e, dict) and e.get("k") == "path":
        return e["def"].rsplit("::", 1)[-1]
    return None


def _deref(e):
    while isinstance(e, dict) and e.get("k") == "ref":
        e = e["e"]
    return e


def resolve_const_expr(e, consts, depth=0):
    """follow `CONST` and `CONST.field` paths into the const item's expression tree"""
    e = _deref(e)
    if depth > 6 or not isinstance(e, dict):
        return e
    if e.get("k") == "path" and str(e.get("dk", "")).startswith(("Const", "AssocConst", "Static")):
        c = consts.get(e["def"])
        if c is not None:
            return resolve_const_expr(c["e"], consts, depth + 1)
    if e.get("k") == "field":
        base = resolve_const_expr(e["e"], consts, depth + 1)
        if isinstance(base, dict) and base.get("k") == "struct":
            for n, v in base["fields"]:
                if n == e["name"]:
                    return resolve_const_expr(v, consts, depth + 1)
    if e.get("k") == "block" and e.get("e") is not None and not e.get("stmts"):
        return resolve_const_expr(e["e"], consts, depth + 1)
    return e


def parse_signature(e, consts):
    """(positional arg ids, variadic id or None, return id) from a Signature expression; ids are DataTypeId variant names"""
    e = resolve_const_expr(e, consts)
    if not isinstance(e, dict):
        return None
    if e.get("k") == "call" and e.get("f", "").endswith("Signature::new") and len(e["a"]) >= 2:
        a0 = resolve_const_expr(e["a"][0], consts)
        args = [variant_of(resolve_const_expr(x, consts)) for x in a0.get("e", [])] if a0.get("k") == "array" else None
        return args, None, variant_of(resolve_const_expr(e["a"][1], consts))
    if e.get("k") == "struct" and e.get("def", "").endswith("Signature"):
        f = dict((n, v) for n, v in e["fields"])
        a0 = resolve_const_expr(f.get("positional_args"), consts)
        args = [variant_of(resolve_const_expr(x, consts)) for x in a0.get("e", [])] if isinstance(a0, dict) and a0.get("k") == "array" else None
        va = resolve_const_expr(f.get("variadic_arg"), consts) if f.get("variadic_arg") else None
        vid = None
        if isinstance(va, dict) and va.get("k") == "call" and va.get("a"):
            vid = variant_of(resolve_const_expr(va["a"][0], consts))
        return args, vid, variant_of(resolve_const_expr(f.get("return_type"), consts))
    return None


def signature_of(row, consts):
    if not row["args"]:
        return None
    return parse_signature(row["args"][0], consts)
