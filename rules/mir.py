"""Helpers over one function's event CFG (as emitted by gdbfacts): successors, dominators,
def-use chains, value provenance. Pure graph algorithms; nothing is executed."""
from collections import defaultdict


class Call:
    __slots__ = ("bb", "callee", "args", "dst", "target", "unwind", "line", "exp", "fn")

    def __init__(self, fn, bb, t):
        self.fn = fn
        self.bb = bb
        self.callee = t[1]
        self.args = t[2]
        self.dst = t[3]
        self.target = t[4]
        self.unwind = t[5]
        self.line = t[6]
        self.exp = t[7]

    @property
    def name(self):
        """resolved callee def path when resolution succeeded, else the declared one"""
        c = self.callee
        return c.get("res") or c.get("def") or ("<fnptr>" if "ptr" in c else "<other>")

    @property
    def decl(self):
        return self.callee.get("def") or ""

    @property
    def gargs(self):
        return self.callee.get("res_args") if "res" in self.callee else self.callee.get("args", [])

    def __repr__(self):
        return f"Call({self.name}@bb{self.bb}:{self.line})"


def op_local(op):
    """local of a copy/move operand with no projection, else None"""
    if op[0] in ("c", "m") and not op[1][1]:
        return op[1][0]
    return None


def op_place(op):
    if op[0] in ("c", "m"):
        return op[1]
    return None


def op_const(op):
    if op[0] == "k":
        return op[1]
    return None


def place_fields(pl):
    return [(p[1], p[2]) for p in pl[1] if isinstance(p, list) and p[0] == "f"]


def place_str(pl):
    s = f"_{pl[0]}"
    for p in pl[1]:
        if p == "*":
            s = f"(*{s})"
        elif p[0] == "f":
            s += f".{p[1]}"
        elif p[0] == "d":
            s += f" as {p[1]}"
        elif p[0] == "i":
            s += f"[_{p[1]}]"
        else:
            s += f"[{p[0]}]"
    return s


class Fn:
    def __init__(self, rec):
        self.rec = rec
        self.id = rec.get("key") or rec["id"]
        self.path = rec["id"]
        self.bbs = rec["bbs"]
        self.n = len(self.bbs)
        self.locals = rec["locals"]
        self.argc = rec["argc"]
        self._succ = None
        self._pred = None
        self._dom = None
        self._pdom = None
        self._defs = None
        self._calls = None
        self.varnames = {}
        for nm, pl in rec.get("vars", []):
            if not pl[1]:
                self.varnames.setdefault(pl[0], nm)

    # ---- graph ----
    def term(self, b):
        return self.bbs[b]["t"]

    def succ_of_term(self, t, unwind=False):
        k = t[0]
        out = []
        if k == "goto":
            out = [t[1]]
        elif k == "switch":
            out = [x[1] for x in t[2]] + [t[3]]
        elif k == "drop":
            out = [t[2]] + ([t[3]] if unwind and t[3] is not None else [])
        elif k == "call":
            out = ([t[4]] if t[4] is not None else []) + ([t[5]] if unwind and t[5] is not None else [])
        elif k == "assert":
            out = [t[4]] + ([t[5]] if unwind and t[5] is not None else [])
        elif k == "yield":
            out = [t[1]]
        return out

    @property
    def succ(self):
        if self._succ is None:
            self._succ = [list(dict.fromkeys(self.succ_of_term(b["t"]))) for b in self.bbs]
            if self.rec.get("coroutine"):
                self._stitch_coroutine()
        return self._succ

    def _stitch_coroutine(self):
        """Coroutine (async fn) bodies are state machines: block 0 dispatches on the saved state and every await
        point stores a state number and returns. Re-connect `store state k; return` → resume block of k and drop
        the dispatch edges, which restores the control flow of the source between awaits."""
        t0 = self.bbs[0]["t"]
        if t0[0] != "switch":
            return
        resume = {v: b for v, b in t0[2]}
        start = resume.get(0)
        self.suspend_blocks = set()
        for b, blk in enumerate(self.bbs):
            if blk["t"][0] != "ret":
                continue
            k = None
            for s in blk["s"]:
                if s[0] == "sd":
                    k = s[2]
            if k is not None and k >= 3 and k in resume:
                self._succ[b] = [resume[k]]
                self.suspend_blocks.add(b)
        if start is not None:
            self._succ[0] = [start]

    @property
    def tsucc(self):
        """Successors after jump threading of the mir-opt-level=0 lowering of `&&`, `||`, `matches!`:
        a block J (only storage markers) that switches on a bool/int temp L, entered by `goto` from
        predecessors whose last write to L is a constant, is bypassed: P -> target(const)."""
        if getattr(self, "_tsucc", None) is None:
            ts = [list(s) for s in self.succ]
            for j, blk in enumerate(self.bbs):
                t = blk["t"]
                if t[0] != "switch" or t[1][0] not in ("c", "m") or t[1][1][1]:
                    continue
                if any(s[0] != "dead" for s in blk["s"]):
                    continue
                L = t[1][1][0]
                for p in self.pred[j]:
                    pt = self.bbs[p]["t"]
                    if pt[0] != "goto":
                        continue
                    val = None
                    for s in self.bbs[p]["s"]:
                        if s[0] == "a" and s[1][0] == L:
                            if not s[1][1] and s[2][0] == "use" and s[2][1][0] == "k" and s[2][1][1].get("k") == "int":
                                val = s[2][1][1]["v"]
                            else:
                                val = None
                    if val is None:
                        continue
                    tgt = t[3]
                    for v, b in t[2]:
                        if v == val:
                            tgt = b
                    ts[p] = [tgt]
            self._tsucc = ts
        return self._tsucc

    def reach(self, start, avoid_blocks=(), avoid_edges=(), threaded=True):
        succ = self.tsucc if threaded else self.succ
        seen = set()
        st = [start]
        ab = set(avoid_blocks)
        ae = set(avoid_edges)
        while st:
            b = st.pop()
            if b in seen or b in ab:
                continue
            seen.add(b)
            for s in succ[b]:
                if (b, s) not in ae:
                    st.append(s)
        return seen

    def edge_dominates(self, src, tgt, b):
        """every (threaded) path from entry to b takes the edge src->tgt"""
        return b not in self.reach(0, avoid_edges=[(src, tgt)])

    def block_dominates_t(self, a, b):
        """a dominates b in the threaded CFG"""
        return a == b or b not in self.reach(0, avoid_blocks=[a])

    @property
    def pred(self):
        if self._pred is None:
            p = [[] for _ in range(self.n)]
            for b, ss in enumerate(self.succ):
                for s in ss:
                    p[s].append(b)
            self._pred = p
        return self._pred

    def reachable_from(self, start, avoid=()):
        """blocks reachable from `start` (inclusive) along normal edges without entering `avoid`"""
        seen = set()
        st = [start]
        avoid = set(avoid)
        while st:
            b = st.pop()
            if b in seen or b in avoid:
                continue
            seen.add(b)
            st.extend(self.succ[b])
        return seen

    def _idom(self, succ, roots):
        # iterative dataflow dominators (sets); functions are small
        n = self.n
        allb = set(range(n))
        reach = set()
        st = list(roots)
        while st:
            b = st.pop()
            if b in reach:
                continue
            reach.add(b)
            st.extend(succ[b])
        pred = [[] for _ in range(n)]
        for b in reach:
            for s in succ[b]:
                pred[s].append(b)
        dom = {b: set(reach) for b in reach}
        for r in roots:
            dom[r] = {r}
        changed = True
        order = sorted(reach)
        while changed:
            changed = False
            for b in order:
                if b in roots:
                    continue
                ps = [dom[p] for p in pred[b] if p in reach]
                new = set.intersection(*ps) if ps else set()
                new = new | {b}
                if new != dom[b]:
                    dom[b] = new
                    changed = True
        return dom

    @property
    def dom(self):
        """dom[b] = set of blocks dominating b (normal edges, from entry)"""
        if self._dom is None:
            self._dom = self._idom(self.succ, [0])
        return self._dom

    def dominates(self, a, b):
        return b in self.dom and a in self.dom[b]

    @property
    def exits(self):
        self.succ
        susp = getattr(self, "suspend_blocks", set())
        return [b for b in range(self.n) if self.term(b)[0] in ("ret",) and not self.bbs[b]["cl"] and b not in susp]

    # ---- events ----
    def calls(self):
        if self._calls is None:
            self._calls = [Call(self, b, blk["t"]) for b, blk in enumerate(self.bbs)
                           if blk["t"][0] == "call" and not blk["cl"]]
        return self._calls

    def calls_named(self, *subs):
        return [c for c in self.calls() if any(s in c.name or s in c.decl for s in subs)]

    def stmts(self):
        for b, blk in enumerate(self.bbs):
            if blk["cl"]:
                continue
            for i, s in enumerate(blk["s"]):
                yield b, i, s

    def assigns(self):
        for b, i, s in self.stmts():
            if s[0] == "a":
                yield b, i, s[1], s[2], s[3]

    @property
    def defs(self):
        """local -> list of ('a', bb, idx, rvalue) | ('call', bb, Call) for whole-local defs"""
        if self._defs is None:
            d = defaultdict(list)
            for b, i, pl, rv, ln in self.assigns():
                if not pl[1]:
                    d[pl[0]].append(("a", b, i, rv))
                elif pl[1][0] != "*":       # a store through a pointer does not redefine the pointer local
                    d[pl[0]].append(("pa", b, i, rv, pl))
            for c in self.calls():
                if not c.dst[1]:
                    d[c.dst[0]].append(("call", c.bb, c))
                elif c.dst[1][0] != "*":
                    d[c.dst[0]].append(("pcall", c.bb, c))
            self._defs = d
        return self._defs

    def single_def(self, l):
        ds = [x for x in self.defs.get(l, []) if x[0] in ("a", "call")]
        if len(ds) == 1 and len(self.defs.get(l, [])) == 1:
            return ds[0]
        return None

    def reaching_def(self, l, bb):
        """the unique whole-local definition of l that reaches block bb (flow-sensitive), else None"""
        ds = [x for x in self.defs.get(l, []) if x[0] in ("a", "call")]
        if any(x[0] in ("pa", "pcall") for x in self.defs.get(l, [])):
            return None
        if len(ds) == 1:
            return ds[0]
        if bb is None or not ds:
            return None
        cands = [d for d in ds if d[1] != bb and self.dominates(d[1], bb)]
        same = [d for d in ds if d[1] == bb]
        if same and not cands:
            return None
        if not cands:
            return None
        # latest dominating definition
        best = cands[0]
        for d in cands[1:]:
            if self.dominates(best[1], d[1]):
                best = d
        # no other definition may reach bb without passing `best`
        for d in ds:
            if d is best:
                continue
            if bb in self.reach(d[1], avoid_blocks=[best[1]], threaded=False) and d[1] != best[1]:
                # d reaches bb around best?  only a problem if d is not itself dominated-before best on every path
                if not self.dominates(d[1], best[1]):
                    return None
        return best

    def origin(self, op_or_local, depth=30, through_calls=(), at=None):
        """Follow copy/move/ref/deref/int-cast chains of temporaries back to a root (flow-sensitive when a
        local has several definitions and `at` = block of the use is given). Returns a tuple describing the root:
          ('arg', n, proj) | ('call', Call, proj) | ('const', constdict) | ('local', l, proj) | ('rv', rvalue)
        `proj` is the accumulated projection (field names) applied on the way."""
        if isinstance(op_or_local, int):
            l, proj = op_or_local, []
        else:
            op = op_or_local
            if op[0] == "k":
                return ("const", op[1])
            if op[0] not in ("c", "m"):
                return ("rv", op)
            l, proj = op[1][0], list(op[1][1])
        while depth > 0:
            depth -= 1
            if 1 <= l <= self.argc and not self.defs.get(l):
                return ("arg", l, proj)
            sd = self.single_def(l)
            if sd is None:
                sd = self.reaching_def(l, at)
            if sd is None:
                if 1 <= l <= self.argc:
                    return ("arg", l, proj)
                return ("local", l, proj)
            at = sd[1]
            if sd[0] == "call":
                c = sd[2]
                if any(t in c.name for t in through_calls) and c.args:
                    a = c.args[0]
                    if a[0] in ("c", "m"):
                        l, proj = a[1][0], list(a[1][1]) + proj
                        continue
                return ("call", c, proj)
            rv = sd[3]
            k = rv[0]
            if k == "use":
                o = rv[1]
                if o[0] == "k":
                    return ("const", o[1])
                if o[0] in ("c", "m"):
                    l, proj = o[1][0], list(o[1][1]) + proj
                    continue
                return ("rv", rv)
            if k in ("ref", "raw"):
                pl = rv[2]
                l, proj = pl[0], list(pl[1]) + proj
                continue
            if k == "cast" and (rv[1] in ("IntToInt", "PtrToPtr", "Transmute") or rv[1].startswith("Coerce")):
                o = rv[2]
                if o[0] == "k":
                    return ("const", o[1])
                if o[0] in ("c", "m"):
                    l, proj = o[1][0], list(o[1][1]) + proj
                    continue
            if k == "agg" and proj:
                # projecting a field out of a freshly built tuple / struct / enum variant: continue with that operand
                p0 = proj[0]
                p1 = proj[1] if len(proj) > 1 else None
                kind = rv[1]
                idx = None
                rest = None
                if kind[0] == "tuple" and isinstance(p0, list) and p0[0] == "f" and p0[1].isdigit():
                    idx, rest = int(p0[1]), proj[1:]
                elif kind[0] == "adt":
                    fields = kind[3]
                    q, r2 = (p1, proj[2:]) if (isinstance(p0, list) and p0[0] == "d") else (p0, proj[1:])
                    if isinstance(q, list) and q[0] == "f" and q[1] in fields:
                        idx, rest = fields.index(q[1]), r2
                if idx is not None and idx < len(rv[2]):
                    o = rv[2][idx]
                    if o[0] == "k":
                        return ("const", o[1])
                    if o[0] in ("c", "m"):
                        l, proj = o[1][0], list(o[1][1]) + list(rest)
                        continue
            return ("rv", rv, proj)
        return ("local", l, proj)

    def local_name(self, l):
        return self.varnames.get(l, f"_{l}")

    def uses_of(self, l):
        """(bb, kind, obj) for every statement/terminator that reads local l"""
        out = []

        def mentions(o):
            if isinstance(o, list):
                if len(o) == 2 and isinstance(o[0], int) and isinstance(o[1], list):
                    if o[0] == l:
                        return True
                    return any(isinstance(p, list) and p[0] == "i" and p[1] == l for p in o[1])
                return any(mentions(x) for x in o)
            if isinstance(o, dict):
                return any(mentions(v) for v in o.values())
            return False

        for b, blk in enumerate(self.bbs):
            if blk["cl"]:
                continue
            for i, s in enumerate(blk["s"]):
                if s[0] == "a" and (mentions(s[2]) or (s[1][1] and mentions(s[1]))):
                    out.append((b, "stmt", s))
            t = blk["t"]
            if t[0] == "call" and (mentions(t[2]) or mentions(t[1])):
                out.append((b, "call", Call(self, b, t)))
            elif t[0] == "switch" and mentions(t[1]):
                out.append((b, "switch", t))
            elif t[0] == "drop" and mentions(t[1]):
                out.append((b, "drop", t))
            elif t[0] == "assert" and mentions(t[2]):
                out.append((b, "assert", t))
        return out


def switch_edges(t):
    """[(value_or_None, target)] of a switch terminator; None = otherwise"""
    return [(v, b) for v, b in t[2]] + [(None, t[3])]


def disc_switches(fn):
    """(bb, place_whose_discriminant_is_read, switch_terminator) for `match`-style switches"""
    out = []
    for b in range(fn.n):
        t = fn.term(b)
        if t[0] != "switch" or t[1][0] not in ("c", "m"):
            continue
        L = t[1][1][0]
        for s in fn.bbs[b]["s"]:
            if s[0] == "a" and s[1] == [L, []] and s[2][0] == "disc":
                out.append((b, s[2][1], t))
    return out


def region_of_edges(fn, edges):
    """blocks every (threaded) path to which takes one of `edges`"""
    allr = fn.reach(0)
    without = fn.reach(0, avoid_edges=edges)
    return allr - without


def adt_variants(facts, adt_id):
    for a in facts.records("adt"):
        if a["id"] == adt_id:
            return {v["name"]: v["discr"] for v in a["variants"]}
    return None


def promoted_variant(const):
    """variant name if the constant operand is a promoted `&Enum::Variant`"""
    if not const or const.get("k") != "promoted":
        return None
    for blk in const["body"]:
        for s in blk["s"]:
            if s[0] == "a" and s[2][0] == "agg" and s[2][1][0] == "adt":
                return s[2][1][2]
    return None


TRANSPARENT_CALLS = (
    "::min", "::max", "::unwrap_or", "::unwrap", "::expect", "::unwrap_or_default", "::unwrap_or_else", "::try_from", "::try_into",
    "::from", "::into", "::abs", "::unsigned_abs", "::checked_", "::saturating_", "::wrapping_", "::overflowing_", "::clamp",
    "::as_", "::to_usize", "::to_i64", "::clone", "::branch", "::from_residual", "::ok", "::pow", "::rem_euclid", "::div_euclid",
    "std::ops::Add::add", "std::ops::Sub::sub", "std::ops::Mul::mul", "std::ops::Div::div", "std::ops::Rem::rem", "std::ops::Neg::neg",
)


def operand_locals(x, acc):
    """locals mentioned by an operand / place / rvalue JSON structure"""
    if isinstance(x, list):
        if len(x) == 2 and isinstance(x[0], int) and not isinstance(x[0], bool) and isinstance(x[1], list):
            if all(isinstance(p, str) or (isinstance(p, list) and p and isinstance(p[0], str)) for p in x[1]):
                acc.add(x[0])
                for p in x[1]:
                    if isinstance(p, list) and p[0] == "i":
                        acc.add(p[1])
                return acc
        for y in x:
            operand_locals(y, acc)
    return acc


def taint(fn, seeds, transparent=TRANSPARENT_CALLS, stop_calls=()):
    """flow-insensitive, local-granular forward taint. `seeds`: set of locals. Propagates through
    assignments (use/cast/binop/unop/ref/aggregate/discriminant) and through calls whose name contains
    one of `transparent` (value-preserving helpers); any other call result is clean (its result is a
    fresh value, e.g. a byte offset produced by a char-boundary API)."""
    t = set(seeds)
    changed = True
    calls = fn.calls()
    assigns = list(fn.assigns())
    while changed:
        changed = False
        for b, i, pl, rv, ln in assigns:
            if pl[0] in t:
                continue
            if operand_locals(rv[1:], set()) & t:
                t.add(pl[0])
                changed = True
        for c in calls:
            if c.dst[0] in t:
                continue
            nm = c.name
            if any(s in nm for s in stop_calls):
                continue
            if any(s in nm or s in c.decl for s in transparent):
                if operand_locals(c.args, set()) & t:
                    t.add(c.dst[0])
                    changed = True
    return t


# ---------------------------------------------------------------- locks / critical sections
LOCK_FNS = ("lock_api::Mutex::<R, T>::lock", "sync::Mutex::<T>::lock", "lock_api::RwLock::<R, T>::write", "lock_api::RwLock::<R, T>::read",
            "sync::RwLock::<T>::write", "sync::RwLock::<T>::read", "lock_api::Mutex::<R, T>::try_lock")
DEREFS = ("::deref", "::deref_mut")


def is_lock_call(c):
    return any(c.name.endswith(s) for s in LOCK_FNS)


def lock_calls(fn):
    return [c for c in fn.calls() if is_lock_call(c)]


def guard_of(fn, op, at=None):
    """(lock Call, [field names through the guarded struct]) if the operand/place is reached through a guard deref"""
    o = fn.origin(op, through_calls=DEREFS + ("::unwrap", "::expect"), at=at)
    if o[0] == "call" and is_lock_call(o[1]):
        proj = o[2] if len(o) > 2 and isinstance(o[2], list) else []
        return o[1], [p[1] for p in proj if isinstance(p, list) and p[0] == "f"]
    return None, []


def lock_class(fn, lc):
    """(guarded type, field path of the mutex) — the lock's class"""
    ga = lc.gargs or []
    ty = ga[-1] if ga else "?"
    o = fn.origin(lc.args[0]) if lc.args else None
    path = []
    if o and len(o) > 2 and isinstance(o[2], list):
        path = [f"{p[2].rsplit('::', 1)[-1]}.{p[1]}" for p in o[2] if isinstance(p, list) and p[0] == "f"]
    return ty, ".".join(path)


def guarded_accesses(fn):
    """every field access through a mutex guard:
       (bb, stmt_idx or None, 'r'|'w'|'call', lock Call, [fields], line, extra)"""
    out = []
    cache = {}

    def g_of_place(pl, b):
        key = (pl[0], tuple(str(p) for p in pl[1]), b)
        if key not in cache:
            cache[key] = guard_of(fn, ["c", pl], at=b)
        return cache[key]

    for b, i, pl, rv, ln in fn.assigns():
        # write through a guard
        if pl[1] and any(isinstance(p, list) and p[0] == "f" for p in pl[1]):
            lc, flds = g_of_place(pl, b)
            if lc:
                out.append((b, i, "w", lc, flds, ln, rv))
        # reads
        places = []

        def collect(x):
            if isinstance(x, list):
                if len(x) == 2 and x[0] in ("c", "m") and isinstance(x[1], list) and len(x[1]) == 2 and isinstance(x[1][0], int):
                    places.append(x[1])
                    return
                if len(x) >= 3 and x[0] in ("ref", "raw") and isinstance(x[2], list):
                    places.append(x[2])
                    return
                if len(x) == 2 and x[0] == "disc":
                    places.append(x[1])
                    return
                for y in x:
                    collect(y)
        collect(rv)
        for p in places:
            if p[1] and any(isinstance(q, list) and q[0] == "f" for q in p[1]):
                lc, flds = g_of_place(p, b)
                if lc:
                    kind = "ref" if rv[0] in ("ref", "raw") else "r"
                    out.append((b, i, kind, lc, flds, ln, rv))
    return out


def resolve_bool(fn, local, depth=6):
    """(Call, inverted) if the bool local is — through copies, `!` and the non-constant arm of a `&&`/`||` temp —
    the result of a call; else (None, False)"""
    inv = False
    cur = local
    for _ in range(depth):
        ds = fn.defs.get(cur, [])
        calls = [d for d in ds if d[0] == "call"]
        if len(calls) == 1 and all(d[0] == "call" or (d[0] == "a" and d[3][0] == "use" and d[3][1][0] == "k") for d in ds):
            return calls[0][2], inv
        nonconst = [d for d in ds if d[0] == "a" and not (d[3][0] == "use" and d[3][1][0] == "k")]
        if len(nonconst) != 1 or any(d[0] not in ("a",) for d in ds):
            return None, False
        rv = nonconst[0][3]
        if rv[0] == "use" and rv[1][0] in ("c", "m") and not rv[1][1][1]:
            cur = rv[1][1][0]
        elif rv[0] == "un" and rv[1] == "Not" and rv[2][0] in ("c", "m") and not rv[2][1][1]:
            cur = rv[2][1][0]
            inv = not inv
        else:
            return None, False
    return None, False


def controlling_calls(fn, target_bb):
    """[(Call, truth)] — bool-returning calls whose outcome `truth` is implied on every path reaching target_bb"""
    out = []
    for b in range(fn.n):
        t = fn.term(b)
        if t[0] != "switch" or t[4] != "bool" or t[1][0] not in ("c", "m") or t[1][1][1]:
            continue
        c, inv = resolve_bool(fn, t[1][1][0])
        if c is None:
            continue
        for v, tgt in switch_edges(t):
            if fn.edge_dominates(b, tgt, target_bb):
                truth = (v != 0) != inv
                out.append((c, truth))
    return out


# ---------------------------------------------------------------------------------------------
# integer value ranges (sound over-approximation; used to discharge overflow asserts on arithmetic over
# values that were widened from a narrower type, e.g. `(precision as i32) - (scale as i32)`)
INT_RANGE = {}
for _b in (8, 16, 32, 64, 128):
    INT_RANGE[f"i{_b}"] = (-(1 << (_b - 1)), (1 << (_b - 1)) - 1)
    INT_RANGE[f"u{_b}"] = (0, (1 << _b) - 1)
INT_RANGE["isize"] = INT_RANGE["i64"]
INT_RANGE["usize"] = INT_RANGE["u64"]


def _clip(r, ty):
    """r if it fits the type, else the whole type (wrapped or panicked: anything may follow)"""
    t = INT_RANGE.get(ty)
    if t is None:
        return r
    if r is None or r[0] < t[0] or r[1] > t[1]:
        return t
    return r


def bin_range(op, a, b):
    """mathematical range of `a op b` for operand ranges a, b (None when not derivable)"""
    if a is None or b is None:
        return None
    op = op.replace("WithOverflow", "").replace("Unchecked", "")
    if op == "Add":
        return (a[0] + b[0], a[1] + b[1])
    if op == "Sub":
        return (a[0] - b[1], a[1] - b[0])
    if op == "Mul":
        c = [a[0] * b[0], a[0] * b[1], a[1] * b[0], a[1] * b[1]]
        return (min(c), max(c))
    return None


def int_range(fn, op, at=None, depth=14, _seen=None):
    """(lo, hi) covering every run-time value of integer operand `op` (a MIR operand) at block `at`,
    or None when nothing is known (caller falls back to the type's range)."""
    if depth <= 0:
        return None
    if op[0] == "k":
        k = op[1]
        if k.get("k") == "int" and isinstance(k.get("v"), int):
            return (k["v"], k["v"])
        return INT_RANGE.get(k.get("ty"))
    if op[0] not in ("c", "m"):
        return None
    l, proj = op[1][0], op[1][1]
    _seen = _seen or set()
    if proj:
        # `.0` of a checked-op tuple whose overflow assert passed: the mathematical result, which fits the type
        if len(proj) == 1 and isinstance(proj[0], list) and proj[0][:2] == ["f", "0"]:
            sd = fn.single_def(l) or fn.reaching_def(l, at)
            if sd and sd[0] == "a" and sd[3][0] == "bin" and sd[3][1].endswith("WithOverflow"):
                rv = sd[3]
                ra = int_range(fn, rv[2], sd[1], depth - 1, _seen) or INT_RANGE.get(rv[4])
                rb = int_range(fn, rv[3], sd[1], depth - 1, _seen) or INT_RANGE.get(rv[4])
                return _clip(bin_range(rv[1], ra, rb), rv[4])
        # field of a freshly built tuple: the operand stored there
        if len(proj) == 1 and isinstance(proj[0], list) and proj[0][0] == "f" and proj[0][1].isdigit():
            sd = fn.single_def(l) or fn.reaching_def(l, at)
            if sd and sd[0] == "a" and sd[3][0] == "agg" and sd[3][1][0] == "tuple" and int(proj[0][1]) < len(sd[3][2]):
                return int_range(fn, sd[3][2][int(proj[0][1])], sd[1], depth - 1, _seen)
        return None
    lty = fn.locals[l].strip()
    key = (l, at)
    if key in _seen:
        return INT_RANGE.get(lty)
    _seen = _seen | {key}
    sd = fn.single_def(l) or fn.reaching_def(l, at)
    if sd is None:
        ds = fn.defs.get(l, [])
        if ds and all(x[0] in ("a", "call") for x in ds) and not (1 <= l <= fn.argc):
            rs = [_def_range(fn, x, lty, depth - 1, _seen) for x in ds]
            if all(r is not None for r in rs):
                return (min(r[0] for r in rs), max(r[1] for r in rs))
        return INT_RANGE.get(lty)
    r = _def_range(fn, sd, lty, depth - 1, _seen)
    return r if r is not None else INT_RANGE.get(lty)


def _def_range(fn, sd, lty, depth, seen):
    if sd[0] == "call":
        c = sd[2]
        name = c.name
        if name in ("std::cmp::Ord::max", "std::cmp::Ord::min", "std::cmp::max", "std::cmp::min") and len(c.args) == 2:
            ra = int_range(fn, c.args[0], c.bb, depth, seen)
            rb = int_range(fn, c.args[1], c.bb, depth, seen)
            if ra and rb:
                return (max(ra[0], rb[0]), max(ra[1], rb[1])) if name.endswith("max") else (min(ra[0], rb[0]), min(ra[1], rb[1]))
        return INT_RANGE.get(lty)
    rv = sd[3]
    k = rv[0]
    if k == "use":
        return int_range(fn, rv[1], sd[1], depth, seen)
    if k == "cast" and rv[1] == "IntToInt":
        src, dst = rv[3], rv[4]
        r = int_range(fn, rv[2], sd[1], depth, seen) or INT_RANGE.get(src)
        if r is None:
            return INT_RANGE.get(dst)
        s = INT_RANGE.get(src)
        if s:
            r = (max(r[0], s[0]), min(r[1], s[1]))
        return _clip(r, dst)
    if k == "bin" and rv[1] in ("Add", "Sub", "Mul"):
        ra = int_range(fn, rv[2], sd[1], depth, seen) or INT_RANGE.get(rv[4])
        rb = int_range(fn, rv[3], sd[1], depth, seen) or INT_RANGE.get(rv[4])
        return _clip(bin_range(rv[1], ra, rb), rv[4])
    return INT_RANGE.get(lty)


def reach_flags(fn, start, avoid_blocks=(), env=None):
    """Blocks reachable from `start` when boolean flag locals that are assigned a constant on the way are followed through the
    switches that test them (`valid = false; break; … if !valid { continue }`). Sound over-approximation of the feasible paths:
    a switch is pruned only when the tested local provably holds a constant on this path."""
    avoid = set(avoid_blocks)
    seen = set()
    out = set()
    st = [(start, tuple(sorted((env or {}).items())))]
    while st:
        b, e = st.pop()
        if b in avoid or (b, e) in seen:
            continue
        seen.add((b, e))
        out.add(b)
        envd = dict(e)
        for s_ in fn.bbs[b]["s"]:
            if s_[0] != "a":
                continue
            pl, rv = s_[1], s_[2]
            if pl[1]:
                continue
            l = pl[0]
            if rv[0] == "use" and rv[1][0] == "k" and rv[1][1].get("k") == "int" and rv[1][1].get("ty") == "bool":
                envd[l] = rv[1][1]["v"]
            elif rv[0] == "use" and rv[1][0] in ("c", "m") and not rv[1][1][1] and rv[1][1][0] in envd:
                envd[l] = envd[rv[1][1][0]]
            elif rv[0] == "un" and rv[1] == "Not" and rv[2][0] in ("c", "m") and not rv[2][1][1] and rv[2][1][0] in envd:
                envd[l] = 1 - envd[rv[2][1][0]]
            else:
                envd.pop(l, None)
        t = fn.term(b)
        if t[0] == "call" and not t[3][1]:
            envd.pop(t[3][0], None)
        succs = None
        if t[0] == "switch" and t[1][0] in ("c", "m") and not t[1][1][1] and t[1][1][0] in envd:
            v = envd[t[1][1][0]]
            tgts = [tg for val, tg in switch_edges(t) if val == v]
            if not tgts:
                tgts = [tg for val, tg in switch_edges(t) if val is None]
            succs = tgts
        if succs is None:
            succs = [x for x in fn.succ_of_term(t) if x is not None]
        ne = tuple(sorted(envd.items()))
        for x in succs:
            st.append((x, ne))
    return out
