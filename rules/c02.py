"""C02 — the optimizer never changes what a query returns (narrow: rewrite side conditions).
  C02-VOL-FOLD   const folding refuses volatile functions (false edge on volatility()==Volatile)
  C02-VOL-CSE    CSE enters an expression in its table only on the !is_volatile() edge
  C02-VOL-EXISTS existential tree predicates on Expression may return early (skipping the child
                 traversal) only with `true` or on leaf variants
  C02-LIMIT      FilterPushdown: the arm taken by LogicalOperator::Limit reaches stop_pushdown, and
                 stop_pushdown recurses with a fresh FilterPushdown (filters never cross a LIMIT)
  C02-LIMITPD    LimitPushdown moves a LIMIT only below operators in {Project}
  C02-OUTER      in LEFT / LEFT MARK join arms no filter is added to the pushdown used for the right
                 child, and filters for the left child are guarded by side == Left
  C02-GSETS      pushdown below an Aggregate: the grouping-set membership test of the filter's columns is under
                 Iterator::all at every closure level (all grouping sets × all referenced columns)
  (C02-CASTFLAT = C13-FLAT, C02-LIKE = C20-LIKE, C02-SCANF = C11-FRAME are evaluated here too)
Not decided: that a rewritten plan computes the same rows; join reordering; column pruning indices."""
from .framework import RuleResult
from .mir import Fn, op_const, switch_edges, disc_switches, region_of_edges, adt_variants, promoted_variant, reach_flags

EXPLANATION = ("Decides the side conditions under which each optimizer rewrite is an equivalence, on every CFG path of the rewrite "
               "(volatility guards, LIMIT barrier for filters, allowed LIMIT moves, preserved-side rule for outer/mark joins, cast-flatten "
               "and LIKE-rewrite guards). These are necessary conditions; equality of optimized and unoptimized results on data is not decided.")
NOT_DECIDED = ["semantic equivalence of the rewritten plan", "join reordering", "column-prune index arithmetic", "filters through projections of volatile expressions"]

EXPR = "glaredb_core::expr::Expression"
LOP = "glaredb_core::logical::operator::LogicalOperator"
JT = "glaredb_core::logical::logical_join::JoinType"
FP = "glaredb_core::optimizer::filter_pushdown::FilterPushdown"


def _bool_switch_after(fn, call):
    """switch on the bool result of `call` → (bb, true_target, false_target)"""
    dl = call.dst[0]
    if call.target is None:
        return None
    for b in fn.reach(call.target):
        t = fn.term(b)
        if t[0] == "switch" and t[1][0] in ("c", "m") and t[1][1] == [dl, []]:
            e = switch_edges(t)
            fb = [tb for v, tb in e if v == 0]
            tb_ = [tb for v, tb in e if v != 0]
            if fb and tb_:
                return b, tb_[0], fb[0]
    return None


def _arg_variant(fn, a):
    o = fn.origin(a)
    if o[0] == "const":
        return promoted_variant(o[1])
    return None


def _ret_assigns(fn, blocks):
    out = []
    for b in blocks:
        for s in fn.bbs[b]["s"]:
            if s[0] == "a" and s[1] == [0, []]:
                out.append((b, s[2], s[3]))
    return out


def rule_vol_fold(facts):
    r = RuleResult("C02-VOL-FOLD", "const-foldability returns false for volatile scalar functions before looking at children", floor=1)
    rec = facts.fn(f"{EXPR}::is_const_foldable_with_column_check")
    if rec is None:
        r.missing_anchor(f"{EXPR}::is_const_foldable_with_column_check")
        return r
    fn = Fn(rec)
    r.functions.add(fn.id)
    vol = [c for c in fn.calls() if c.name.endswith("::volatility")]
    eqs = [c for c in fn.calls() if c.decl == "std::cmp::PartialEq::eq" and "FunctionVolatility" in str(c.callee.get("args"))]
    trav = {c.bb for c in fn.calls() if c.name.endswith("for_each_child")}
    ok = False
    for e in eqs:
        r.call_sites += 1
        other = [_arg_variant(fn, a) for a in e.args]
        # one operand must be the volatility() result, the other the constant Volatile
        from_vol = any(fn.origin(a)[0] == "call" and fn.origin(a)[1] in vol for a in e.args)
        if not from_vol or "Volatile" not in other:
            continue
        sw = _bool_switch_after(fn, e)
        if not sw:
            continue
        b, tt, ft = sw
        reg = fn.reach(tt, avoid_blocks=[])  # blocks after the true edge
        only_true = reg - fn.reach(ft)
        rets = _ret_assigns(fn, only_true)
        good = bool(rets) and all(rv[0] == "use" and op_const(rv[1]) and op_const(rv[1]).get("v") == 0 for _, rv, _ in rets) \
            and not (only_true & trav)
        ok = ok or good
    r.inst({"fn": fn.id, "volatility_calls": len(vol), "eq_tests": len(eqs), "false_on_volatile": ok}, ok)
    if not ok:
        r.violate(fn.id, "volatile-guard", "no path returns `false` on `volatility() == Volatile`: a volatile function such as random() "
                  "would be folded into one constant", rec["file"], rec["line"])
    return r


def rule_vol_cse(facts):
    r = RuleResult("C02-VOL-CSE", "CSE candidate table insert is dominated by the !is_volatile() edge", floor=1)
    fns = facts.fns_matching(lambda i: i.startswith("glaredb_core::optimizer::common_subexpression::"))
    for rec in fns:
        fn = Fn(rec)
        ins = [c for c in fn.calls() if "HashMap::<" in c.name and (c.name.endswith("::entry") or c.name.endswith("::insert"))
               and "&glaredb_core::expr::Expression" in str(c.gargs[:1])]
        if not ins:
            continue
        r.functions.add(fn.id)
        vols = [c for c in fn.calls() if c.name == f"{EXPR}::is_volatile"]
        for c in ins:
            r.call_sites += 1
            ok = False
            for v in vols:
                sw = _bool_switch_after(fn, v)
                if sw and fn.edge_dominates(sw[0], sw[2], c.bb):
                    ok = True
            r.inst({"fn": fn.id, "insert_line": c.line, "guarded_by_not_volatile": ok}, ok)
            if not ok:
                r.violate(fn.id, "cse-insert", "an expression is entered in the common-subexpression table without passing the "
                          "`!expr.is_volatile()` edge: two independent volatile calls would be merged", rec["file"], c.line)
    return r


def rule_vol_exists(facts):
    r = RuleResult("C02-VOL-EXISTS", "existential tree predicates skip the child traversal only with `true` or on leaf variants", floor=4)
    variants = adt_variants(facts, EXPR)
    # leaf variants: arms of Expression::for_each_child whose body visits nothing
    leafs = set()
    for m in facts.records("match", "glaredb_core"):
        if m["fn"] == f"{EXPR}::for_each_child" and EXPR in m["enums"]:
            for arm in m["arms"]:
                body = arm["body"]
                txt = str(body)
                if "'k': 'call'" not in txt and "'k': 'mcall'" not in txt and "'k': 'loop'" not in txt:
                    def pv(p, acc):
                        if p.get("k") == "v" and p.get("def", "").startswith(EXPR + "::"):
                            acc.add(p["def"].rsplit("::", 1)[-1])
                        for s in p.get("sub", []):
                            if isinstance(s, dict):
                                pv(s, acc)
                            elif isinstance(s, list):
                                pv(s[1], acc)
                    pv(arm["pat"], leafs)
    if not variants:
        r.missing_anchor("enum Expression")
        return r
    cands = facts.fns_matching(lambda i: i.startswith(EXPR + "::") and "{closure" not in i)
    for rec in cands:
        if rec["locals"][0] != "bool":
            continue
        fn = Fn(rec)
        trav = [c for c in fn.calls() if c.name == f"{EXPR}::for_each_child"]
        if not trav:
            continue
        # polarity: accumulator captured by the traversal closure starts as false → existential
        existential = False
        for b, i, pl, rv, ln in fn.assigns():
            if rv[0] == "agg" and rv[1][0] == "closure":
                for op in rv[2]:
                    o = fn.origin(op)
                    if o[0] == "const" and o[1].get("ty") == "bool" and o[1].get("v") == 0:
                        existential = True
                    if o[0] == "local":
                        ds = [d for d in fn.defs.get(o[1], []) if d[0] == "a" and d[3][0] == "use" and op_const(d[3][1])]
                        if ds and op_const(ds[0][3][1]).get("v") == 0 and fn.locals[o[1]] == "bool":
                            existential = True
        if not existential:
            continue
        r.functions.add(fn.id)
        tb = {c.bb for c in trav}
        early = fn.reach(0, avoid_blocks=tb)
        bad = []
        rets = _ret_assigns(fn, early)
        for c in fn.calls():
            if c.bb in early and c.dst == [0, []]:
                rets.append((c.bb, ["call", c.name], c.line))
        for b, rv, ln in rets:
            c = op_const(rv[1]) if rv[0] == "use" else None
            if c and c.get("v") == 1:
                continue
            # guarded by a discriminant test on self selecting only leaf variants?
            leaf_guard = False
            for sb, pl, t in disc_switches(fn):
                if fn.origin(["c", [pl[0], []]])[0] == "arg" or pl[0] == 1:
                    for v, tgt in switch_edges(t):
                        if v is None:
                            continue
                        names = [n for n, d in variants.items() if d == v]
                        if names and names[0] in leafs and fn.edge_dominates(sb, tgt, b):
                            leaf_guard = True
            if not leaf_guard:
                bad.append(ln)
        r.inst({"fn": fn.id, "early_returns_checked": len(rets), "leaf_variants": sorted(leafs)}, not bad)
        for ln in bad:
            r.violate(fn.id, "early-return", "returns a computed/false value without visiting the children of a non-leaf expression: "
                      "e.g. abs(random()) is then reported non-volatile and merged/folded", rec["file"], ln)
    return r


def _covering_arm(m, variant_path):
    for arm in m["arms"]:
        def has(p):
            if p.get("k") == "v" and p.get("def") == variant_path:
                return True
            if p.get("k") == "or":
                return any(has(s) for s in p["sub"])
            return False
        if has(arm["pat"]):
            return arm
    for arm in m["arms"]:
        if arm["pat"].get("k") == "_":
            return arm
    return None


def _calls_in(e, acc):
    if isinstance(e, dict):
        if e.get("k") in ("call", "mcall") and e.get("f"):
            acc.append(e["f"])
        for v in e.values():
            _calls_in(v, acc)
    elif isinstance(e, list):
        for v in e:
            _calls_in(v, acc)
    return acc


def rule_limit(facts):
    r = RuleResult("C02-LIMIT", "filters never cross a LIMIT: Limit arm → stop_pushdown, which recurses with a fresh FilterPushdown", floor=2)
    opt = f"<{FP} as glaredb_core::optimizer::OptimizeRule>::optimize"
    ms = [m for m in facts.records("match", "glaredb_core") if m["fn"] == opt and LOP in m["enums"]]
    if not ms:
        r.missing_anchor(f"match over LogicalOperator in {opt}")
    for m in ms:
        arm = _covering_arm(m, LOP + "::Limit")
        calls = _calls_in(arm["body"], []) if arm else []
        ok = arm is not None and any(c == f"{FP}::stop_pushdown" for c in calls) and len([c for c in calls if c.startswith(FP + "::")]) == 1
        r.inst({"fn": opt, "limit_arm_calls": calls}, ok)
        if not ok:
            r.violate(opt, "Limit-arm", f"the arm handling LogicalOperator::Limit calls {calls} instead of only stop_pushdown: a filter pushed "
                      "below a LIMIT changes which rows the LIMIT keeps", m["file"], arm["ln"] if arm else m["line"])
    # stop_pushdown: every optimize call on children uses a receiver initialised by Default::default
    recs = facts.fns_matching(lambda i: i.startswith(f"{FP}::stop_pushdown"))
    if not recs:
        r.missing_anchor(f"{FP}::stop_pushdown")
    n = 0
    for rec in recs:
        fn = Fn(rec)
        r.functions.add(fn.id)
        for c in fn.calls():
            if c.name == opt or (c.decl.endswith("OptimizeRule::optimize") and FP in str(c.callee.get("self", ""))):
                n += 1
                r.call_sites += 1
                o = fn.origin(c.args[0])
                fresh = o[0] == "call" and o[1].decl.endswith("Default::default")
                if o[0] == "local":
                    ds = fn.defs.get(o[1], [])
                    fresh = any(d[0] == "call" and d[2].decl.endswith("Default::default") for d in ds)
                r.inst({"fn": fn.id, "optimize_call_line": c.line, "receiver_fresh": fresh}, fresh)
                if not fresh:
                    r.violate(fn.id, "stop_pushdown-recursion", "stop_pushdown optimises a child with a FilterPushdown that is not freshly "
                              "default-initialised: pending filters would travel below the barrier operator", rec["file"], c.line)
    if recs and n == 0:
        r.missing_anchor("recursive optimize call inside stop_pushdown")
    return r


def rule_limitpd(facts):
    r = RuleResult("C02-LIMITPD", "LimitPushdown swaps a LIMIT only with operators in {Project}", floor=1)
    ALLOWED = {"Project", "Limit"}
    opt = "<glaredb_core::optimizer::limit_pushdown::LimitPushdown as glaredb_core::optimizer::OptimizeRule>::optimize"
    ms = [m for m in facts.records("match", "glaredb_core") if m["fn"].startswith(opt) and LOP in m["enums"]]
    if not ms:
        r.missing_anchor(f"match over LogicalOperator in {opt}")
    for m in ms:
        vs = set()
        def pv(p):
            if p.get("k") == "v" and p.get("def", "").startswith(LOP + "::"):
                vs.add(p["def"].rsplit("::", 1)[-1])
            for s in p.get("sub", []):
                if isinstance(s, dict):
                    pv(s)
        for arm in m["arms"]:
            pv(arm["pat"])
        ok = vs <= ALLOWED
        r.inst({"fn": m["fn"], "line": m["line"], "variants_matched": sorted(vs)}, ok)
        if not ok:
            r.violate(m["fn"], "limit-swap-variants", f"LimitPushdown matches {sorted(vs - ALLOWED)}: a LIMIT only commutes with row-preserving, "
                      "order-preserving operators (Project)", m["file"], m["line"])
    return r


def rule_outer(facts):
    r = RuleResult("C02-OUTER", "LEFT / LEFT MARK join: nothing is pushed to the right child; left pushes guarded by side == Left", floor=2)
    jt = adt_variants(facts, JT)
    side_adt = "glaredb_core::optimizer::filter_pushdown::condition_extractor::ExprJoinSide"
    sides = adt_variants(facts, side_adt)
    if not jt or not sides:
        r.missing_anchor("enum JoinType / ExprJoinSide")
        return r
    opt = f"<{FP} as glaredb_core::optimizer::OptimizeRule>::optimize"
    for rec in facts.fns_matching(lambda i: i.startswith(FP + "::pushdown_") and "{closure" not in i):
        fn = Fn(rec)
        # switch on join_type
        done_regions = []
        for sb, pl, t in disc_switches(fn):
            flds = [p[1] for p in pl[1] if isinstance(p, list) and p[0] == "f"]
            if not flds or flds[-1] != "join_type":
                continue
            edges = [(sb, tgt) for v, tgt in switch_edges(t) if v is not None and v in (jt.get("Left"), jt.get("LeftMark"))]
            if not edges:
                continue
            region = region_of_edges(fn, edges)
            if not region or any(region <= d for d in done_regions):
                continue
            done_regions.append(region)
            r.functions.add(fn.id)
            # receivers
            adds = [c for c in fn.calls() if c.name.startswith(f"{FP}::add_filters") and c.bb in region]
            opts = [c for c in fn.calls() if (c.name == opt) and c.bb in region]
            right_recv, left_recv = set(), set()

            def rkey(o):
                if o[0] == "call":
                    return ("call", o[1].bb)
                if o[0] == "local":
                    return ("local", o[1])
                return (o[0],)

            def child_index(o, depth=0):
                """index of the take_two_children_exact() array element a plan operand derives from"""
                if len(o) > 2 and isinstance(o[2], list):
                    for p in o[2]:
                        if isinstance(p, list) and p[0] == "ci":
                            return p[1]
                if o[0] == "local" and depth < 3:
                    for d in fn.defs.get(o[1], []):
                        if d[0] == "a" and d[3][0] == "use" and d[3][1][0] in ("c", "m"):
                            pl2 = d[3][1][1]
                            for p in pl2[1]:
                                if isinstance(p, list) and p[0] == "ci":
                                    return p[1]
                            r2 = child_index(fn.origin(d[3][1]), depth + 1)
                            if r2 is not None:
                                return r2
                return None

            for c in opts:
                recv = fn.origin(c.args[0])
                idx = child_index(fn.origin(c.args[2])) if len(c.args) > 2 else None
                (right_recv if idx == 1 else left_recv).add(rkey(recv))
            # side == Left guards
            guards = []
            for c in fn.calls():
                if c.decl == "std::cmp::PartialEq::eq" and "ExprJoinSide" in str(c.callee.get("args")):
                    if "Left" in [_arg_variant(fn, a) for a in c.args]:
                        sw = _bool_switch_after(fn, c)
                        if sw:
                            guards.append((sw[0], sw[1]))
            for sb2, pl2, t2 in disc_switches(fn):
                if "ExprJoinSide" in fn.locals[pl2[0]]:
                    for v, tgt in switch_edges(t2):
                        if v == sides["Left"]:
                            guards.append((sb2, tgt))
            for c in adds:
                r.call_sites += 1
                recv = fn.origin(c.args[0])
                if recv[0] == "arg":      # self.add_filters(remaining) — stays above the join
                    continue
                if rkey(recv) in right_recv:
                    r.inst({"fn": fn.id, "line": c.line, "receiver": "right child pushdown"}, False)
                    r.violate(fn.id, "push-to-right-of-left-join", "a filter is added to the pushdown that optimises the right child of a "
                              "LEFT/LEFT MARK join: rows of the preserved side that only matched filtered-out rows lose their NULL extension",
                              rec["file"], c.line)
                    continue
                ok = any(fn.edge_dominates(gb, gt, c.bb) for gb, gt in guards)
                r.inst({"fn": fn.id, "line": c.line, "receiver": "left/other pushdown", "guarded_by_side_eq_Left": ok}, ok)
                if not ok:
                    r.violate(fn.id, "unguarded-push-under-left-join", "a filter is pushed below a LEFT/LEFT MARK join without the "
                              "`side == ExprJoinSide::Left` test", rec["file"], c.line)
            r.inst({"fn": fn.id, "arm": "Left|LeftMark", "right_receivers": len(right_recv), "left_receivers": len(left_recv)}, True)
    return r


def rule_gsets(facts):
    """Filter pushdown below an Aggregate: with GROUPING SETS / ROLLUP / CUBE a filter on a grouping column may move below the
    aggregate only if *every* grouping set contains every referenced column (a set that omits the column still emits its
    super-aggregate row, computed over the unfiltered input). Decided on the quantifier structure: every closure enclosing the
    grouping-set membership test is consumed by Iterator::all (never any / find / position / filter)."""
    r = RuleResult("C02-GSETS", "pushdown_aggregate: the grouping-set membership test is universally quantified at every level "
                   "(Iterator::all over grouping sets and over referenced columns)", floor=1)
    root = FP + "::pushdown_aggregate"
    recs = {rec["id"]: rec for rec in facts.fns_matching(lambda i: i.startswith(root))}
    if root not in recs:
        r.missing_anchor("FilterPushdown::pushdown_aggregate")
        return r
    sites = []
    for fid, rec in recs.items():
        fn = Fn(rec)
        for c in fn.calls():
            if c.name.endswith("BTreeSet::<T, A>::contains") or c.name.endswith("BTreeSet::<T, A>::is_subset") \
                    or c.name.endswith("BTreeSet::<T, A>::is_superset"):
                sites.append((fn, rec, c))
    if not sites:
        r.missing_anchor("grouping-set membership test (BTreeSet::contains) in pushdown_aggregate")
        return r
    for fn, rec, c in sites:
        r.functions.add(fn.id)
        r.call_sites += 1
        chain, bad, cur = [], None, fn.id
        while cur != root:
            parent_id = cur.rsplit("::{closure", 1)[0]
            prec = recs.get(parent_id)
            if prec is None:
                bad = f"enclosing function {parent_id} not found"
                break
            pf = Fn(prec)
            consumer = None
            for b, i, pl, rv, ln in pf.assigns():
                if rv[0] == "agg" and rv[1][0] == "closure" and rv[1][1] == cur and not pl[1]:
                    for cc in pf.calls():
                        if any(a[0] in ("c", "m") and a[1][0] == pl[0] for a in cc.args):
                            consumer = cc
            if consumer is None:
                bad = f"closure {cur} is not passed directly to an iterator adaptor"
                break
            nm = consumer.name.rsplit("::", 1)[-1]
            chain.append(nm)
            if nm != "all":
                bad = (f"the membership test is quantified by Iterator::{nm} at line {consumer.line}, not by Iterator::all: a filter column that is "
                       "missing from some grouping set would still be pushed below the aggregate (extra super-aggregate rows)")
                break
            cur = parent_id
        r.inst({"fn": fn.id, "test": c.name.rsplit("::", 1)[-1], "quantifiers": chain}, bad is None)
        if bad:
            r.violate(fn.id, "grouping-set-quantifier", bad, rec["file"], c.line)
    return r


def rule_orall(facts):
    """join_filter_or: from `(a.x=1 AND b.y=2) OR (a.x=3 AND b.y=4)` the rewrite derives `(a.x=1 OR a.x=3)` per table. That is implied by the
    OR only if EVERY branch constrains the table; a branch without a predicate on it admits any row of that table."""
    r = RuleResult("C02-ORALL", "JoinFilterOrRewrite derives a per-table OR predicate only when every OR branch has a predicate on that table "
                   "(a branch lookup that fails skips the table)", floor=1)
    recs = facts.fns_matching(lambda i: i.endswith("expr_rewrite::join_filter_or::maybe_rewrite_or"))
    if not recs:
        r.missing_anchor("join_filter_or::maybe_rewrite_or")
        return [r][0]
    rec = recs[0]
    fn = Fn(rec)
    r.functions.add(fn.id)
    nexts = [c for c in fn.calls() if c.name.endswith("as std::iter::Iterator>::next")]
    outer = [n for n in nexts if "hash_map::IntoIter" in n.name]
    if not outer:
        r.missing_anchor("loop over the first branch's per-table predicates (HashMap::into_iter)")
        return r
    outer = outer[0]
    body = fn.reach(outer.target, avoid_blocks=[outer.bb], threaded=False)
    news = [c for c in fn.calls() if c.name.endswith("Vec::<T>::new") and fn.dominates(c.bb, outer.bb)]
    out_locals = {c.dst[0] for c in news}
    pushes = []
    for c in fn.calls():
        if c.bb in body and c.name.endswith("Vec::<T, A>::push") and c.args:
            o = fn.origin(c.args[0], at=c.bb)
            if o[0] == "local" and o[1] in out_locals or (o[0] == "call" and o[1] in news):
                pushes.append(c)
    if not pushes:
        r.missing_anchor("push of the derived per-table predicate")
        return r
    lookups = [c for c in fn.calls() if c.bb in body and (c.name.endswith("HashMap::<K, V, S, A>::get") or c.name.endswith("HashMap::<K, V, S, A>::contains_key"))]
    alls = [c for c in fn.calls() if c.bb in body and c.name.endswith("Iterator>::all")]
    ok = False
    how = None
    for lk in lookups:
        # the failing outcome (None / false) must not reach the push within this iteration
        for b in range(fn.n):
            t = fn.term(b)
            if t[0] != "switch" or t[1][0] not in ("c", "m"):
                continue
            src = None
            for st in fn.bbs[b]["s"]:
                if st[0] == "a" and st[1] == [t[1][1][0], []] and st[2][0] == "disc" and st[2][1][0] == lk.dst[0]:
                    src = "disc"
            if t[1][1] == lk.dst:
                src = "bool"
            if not src:
                continue
            fail = [tg for v, tg in switch_edges(t) if v == 0]
            for ft in fail:
                reach = reach_flags(fn, ft, avoid_blocks=[outer.bb])
                if all(p.bb not in reach for p in pushes):
                    ok, how = True, f"{lk.name.rsplit('::', 1)[-1]} failing ⇒ table skipped"
    for a in alls:
        for b in range(fn.n):
            t = fn.term(b)
            if t[0] == "switch" and t[1][0] in ("c", "m") and t[1][1] == a.dst:
                for ft in [tg for v, tg in switch_edges(t) if v == 0]:
                    reach = fn.reach(ft, avoid_blocks=[outer.bb], threaded=False) | {ft}
                    if all(p.bb not in reach for p in pushes):
                        ok, how = True, "Iterator::all over the branches"
    r.call_sites = len(lookups) + len(alls)
    r.inst({"fn": fn.id, "derived_predicate_pushes": len(pushes), "every_branch_test": how}, ok)
    if not ok:
        r.violate(fn.id, "per-table-OR-not-universal", "the per-table OR predicate is pushed on a path where a branch without a predicate on that table "
                  "does not skip the table (no failing branch lookup / Iterator::all guards the push): the derived filter is stronger than the OR and "
                  "removes rows that qualify through the unconstrained branch", rec["file"], pushes[0].line)
    return r


def rule_distor(facts):
    """distributive_or: (c AND r1) OR (c AND r2) OR … = c AND (r1 OR r2 OR …). If some branch consists of common conjuncts only, its remainder
    is TRUE, so the remaining OR is TRUE and the result is just c. The branch must not simply vanish from the OR."""
    r = RuleResult("C02-DISTOR", "DistributiveOrRewrite: an OR branch that is completely covered by the common conjuncts makes the residual OR true; "
                   "the code must record that (it may not just drop the branch and keep the other residuals)", floor=2)
    recs = facts.fns_matching(lambda i: i.endswith("expr_rewrite::distributive_or::maybe_rewrite_or"))
    if not recs:
        r.missing_anchor("distributive_or::maybe_rewrite_or")
        return r
    rec = recs[0]
    fn = Fn(rec)
    r.functions.add(fn.id)
    user_vars = {pl[0] for name, pl in rec["vars"]}
    sites = []
    for b in range(fn.n):
        t = fn.term(b)
        if t[0] != "switch" or t[1][0] not in ("c", "m"):
            continue
        o = fn.origin(t[1], at=b)
        if o[0] != "call":
            continue
        if o[1].name.endswith("Vec::<T, A>::len") and t[4] == "usize":
            # `match new_and_children.len() { 0 => …` inside the loop over the OR children
            loop_len = any(c.name.endswith("Iterator>::next") and o[1].bb in fn.reach(c.target, avoid_blocks=[c.bb], threaded=False)
                           and c.bb in fn.reach(o[1].bb, threaded=False) for c in fn.calls() if c.target is not None)
            if loop_len:
                for v, tg in switch_edges(t):
                    if v == 0:
                        sites.append(("all conjuncts of an AND branch are common", b, tg, t[5]))
        if o[1].name.endswith("IndexSet::<T, S>::contains") and t[4] == "bool":
            for v, tg in switch_edges(t):
                if v is None or v == 1:
                    sites.append(("a non-AND branch is itself a common conjunct", b, tg, t[5]))
    if len(sites) < 2:
        r.missing_anchor("the two places where an OR branch can be fully covered by the common conjuncts")
        return r
    for what, sb, tg, ln in sites:
        region = region_of_edges(fn, [(sb, tg)])
        effect = False
        for b in region:
            for st in fn.bbs[b]["s"]:
                if st[0] == "a" and st[1][0] in user_vars and not (st[2][0] == "use" and st[2][1][0] == "k" and st[2][1][1].get("ty") == "()"):
                    effect = True
            t = fn.term(b)
            if t[0] == "call":
                effect = True
        r.inst({"fn": fn.id, "case": what, "line": ln, "recorded": effect}, effect)
        if not effect:
            r.violate(fn.id, f"absorbed-branch:{what}", f"when {what} the branch is dropped from the OR and nothing records it: "
                      "`a OR (a AND b)` becomes `a AND b` instead of `a` — the optimized filter loses rows", rec["file"], ln)
    return r


JOIN_NODES = ("LogicalArbitraryJoin", "LogicalComparisonJoin", "LogicalMagicJoin")


def rule_joincond(facts):
    """An optimizer rule that re-builds a join node and keeps the node's own join type (a value copied from an existing
    Logical*Join, so possibly LEFT/RIGHT/FULL/SEMI/…) has to keep the node's own condition as well. Changing the condition of such a
    node - e.g. AND-ing a filter that sat above the join into the ON clause - is an equivalence only for INNER joins, so it needs a
    dominating `join_type == Inner` test (or the constant JoinType::Inner in the new node)."""
    from .mir import controlling_calls, disc_switches
    r = RuleResult("C02-JOINCOND", "a join node re-built with the join type of an existing node keeps that node's condition, unless the join type was tested to be "
                   "Inner", floor=1)
    nsites = 0
    for rec in facts.all_fns(["glaredb_core"], contains=JOIN_NODES):
        if "::optimizer::" not in rec["id"] or "::tests::" in rec["id"]:
            continue
        if not any(j in str(rec["bbs"]) for j in JOIN_NODES):
            continue
        fn = Fn(rec)
        for b, i, pl, rv, ln in fn.assigns():
            if not (rv[0] == "agg" and rv[1][0] == "adt" and rv[1][1].rsplit("::", 1)[-1] in JOIN_NODES):
                continue
            flds = rv[1][3]
            if "join_type" not in flds:
                continue
            nsites += 1
            jt = fn.origin(rv[2][flds.index("join_type")], at=b, through_calls=("::clone",))
            jt_proj = [p for p in (jt[2] if len(jt) > 2 and isinstance(jt[2], list) else []) if isinstance(p, list) and p[0] == "f"]
            copied = bool(jt_proj) and jt_proj[-1][1] == "join_type" and jt_proj[-1][2].rsplit("::", 1)[-1] in JOIN_NODES
            if not copied:
                continue          # constant or freshly decided join type: the rule that builds it owns the condition
            r.functions.add(fn.id)
            r.call_sites += 1
            cf = "condition" if "condition" in flds else "conditions" if "conditions" in flds else None
            same = False
            if cf:
                co = fn.origin(rv[2][flds.index(cf)], at=b, through_calls=("::clone",))
                cproj = [p for p in (co[2] if len(co) > 2 and isinstance(co[2], list) else []) if isinstance(p, list) and p[0] == "f"]
                same = co[0] == jt[0] and co[1] == jt[1] and bool(cproj) and cproj[-1][1] == cf and cproj[:-1] == jt_proj[:-1]
            guarded = False
            if not same:
                for c, truth in controlling_calls(fn, b):
                    if (c.name.endswith("::eq") or c.name.endswith("::ne")) and any("JoinType" in a for a in (c.gargs or []) + [c.callee.get("self", "")]):
                        consts = [a for a in c.args if a[0] == "k" or (fn.origin(a, at=c.bb)[0] == "const")]
                        txt = str([fn.origin(a, at=c.bb) for a in c.args])
                        if "Inner" in txt and ((c.name.endswith("::eq") and truth) or (c.name.endswith("::ne") and not truth)):
                            guarded = True
            ok = same or guarded
            r.inst({"fn": fn.id, "line": ln, "node": rv[1][1].rsplit("::", 1)[-1], "keeps_condition": same, "inner_test": guarded}, ok)
            if not ok:
                r.violate(fn.id, f"join-condition-changed:{rv[1][1].rsplit('::', 1)[-1]}", f"the join node built at line {ln} keeps the join type of an existing node but gets a different "
                          "condition, without a test that the join is INNER: merging a filter into the ON clause of an outer/semi join changes which rows are "
                          "NULL-extended or kept", rec["file"], ln)
    if nsites < 3:
        r.missing_anchor(f"join node constructions in the optimizer (found {nsites}, expected at least 3)")
    return r


def rule_cselazy(facts, rule="C02-CSELAZY"):
    """Common-subexpression elimination hoists an expression into a projection below the operator, where it is evaluated for every
    row. Sub-expressions of CASE (every WHEN after the first, every THEN/ELSE) and of AND/OR are evaluated only on the rows that reach
    them; hoisted, a guarded `num / den` sees the rows its guard excluded and raises (or, volatile aside, costs) where the query as
    written would not. Decided on `extract_expressions`: from the match arms of the lazily evaluated variants (Case, Conjunction) no
    recursive descent is reachable - neither `for_each_child` nor a call of `extract_expressions` (a single non-looping call is tolerated:
    it can only be the first WHEN, which is always evaluated)."""
    from .mir import disc_switches, adt_variants
    r = RuleResult(rule, "CSE does not descend into the conditionally evaluated operands of CASE / AND / OR", floor=2)
    rec = facts.fn("glaredb_core::optimizer::common_subexpression::extract_expressions")
    variants = adt_variants(facts, "glaredb_core::expr::Expression")
    if rec is None or not variants:
        r.missing_anchor("common_subexpression::extract_expressions / Expression variants")
        return r
    fn = Fn(rec)
    r.functions.add(fn.id)
    sws = [(b, pl, t) for b, pl, t in disc_switches(fn) if len(t[2]) >= 5]
    if not sws:
        r.missing_anchor("extract_expressions: no match on the expression variant")
        return r
    b0, _pl, t = sws[0]
    targets = dict((v, bb) for v, bb in t[2])
    all_targets = set(targets.values()) | {t[3]}
    for name in ("Case", "Conjunction"):
        if name not in variants:
            r.missing_anchor(f"Expression::{name}")
            continue
        tgt = targets.get(variants[name], t[3])
        others = {x for v, x in targets.items() if v != variants[name]} | ({t[3]} if tgt != t[3] else set())
        if tgt in others:
            region = set()          # shares its arm with trivial variants (`=> Ok(())`): nothing of its own
        else:
            region = fn.reachable_from(tgt) - set().union(*[fn.reachable_from(o) for o in others]) if others else fn.reachable_from(tgt)
            region.add(tgt)
        descents = []
        for c in fn.calls():
            if c.bb in region and (c.name.endswith("::extract_expressions") or c.name.endswith("::for_each_child") or c.name.endswith("::for_each_child_mut")):
                in_loop = c.bb in fn.reachable_from(c.bb) and any(c.bb in fn.reachable_from(s_) for s_ in fn.succ[c.bb])
                descents.append((c.line, c.name.rsplit("::", 1)[-1], in_loop))
        bad = [d for d in descents if d[1] != "extract_expressions" or d[2]] or (descents if len(descents) > 1 else [])
        ok = not bad
        r.inst({"variant": name, "arm_blocks": len(region), "descents": [list(d) for d in descents]}, ok)
        if not ok:
            r.violate(fn.id, f"descends-into:{name}", f"extract_expressions walks into the operands of Expression::{name} (line {bad[0][0]}): a conditionally evaluated "
                      "sub-expression that occurs twice is hoisted below the operator and evaluated on rows its guard excludes", rec["file"], bad[0][0])
    return r


# Rewrite rules that exist in the tree but are switched off by the project itself, with the project's own reason. Frozen after reading
# optimizer/mod.rs and the rule: re-enabling one applies an unfinished rewrite to every plan.
DISABLED_RULES = {
    "glaredb_core::optimizer::redundant_groups::RemoveRedundantGroups":
        "disabled in Optimizer::optimize ('TODO: Re-enable this when it works better with duplicated expressions across grouping sets'); when it "
        "shifts a retained group column it takes the column's type from the group table at the *new* index before the table's types are rewritten, so "
        "GROUP BY a, a + 1, b (a INT, b TEXT) plans a column typed Int32 over an array of Utf8 and fails at execution",
}


def rule_deadrule(facts, rule="C02-DEADRULE"):
    """A rewrite rule the project has switched off must stay off: nothing that runs may call its `optimize`. (Liveness is decided on the
    call sites of every function that calls some OptimizeRule::optimize; a brand-new rule is not this rule's business.)"""
    r = RuleResult(rule, "optimizer rules the project has disabled are not applied", floor=1)
    impls = [i for i in facts.records("impl", "glaredb_core") if i.get("trait", "").endswith("optimizer::OptimizeRule")]
    if len(impls) < 8:
        r.missing_anchor("impls of optimizer::OptimizeRule (expected at least 8)")
        return r
    have = {i["self_ty"] for i in impls}
    callers = []
    for rec in facts.all_fns(["glaredb_core"], contains="OptimizeRule>::optimize"):
        if "::tests::" in rec["id"]:
            continue
        fn = Fn(rec)
        for c in fn.calls():
            if c.name.endswith("OptimizeRule>::optimize"):
                callers.append((rec, c))
    if len(callers) < 8:
        r.missing_anchor("call sites of OptimizeRule::optimize (expected at least 8)")
        return r
    for ty, why in DISABLED_RULES.items():
        if ty not in have:
            r.notes.append(f"{ty} no longer exists (entry is moot)")
            continue
        used = [(rec, c) for rec, c in callers if c.name.startswith(f"<{ty} as ")]
        # calls from inside the rule's own module (recursion over the plan) do not make it live
        used = [(rec, c) for rec, c in used if ty.rsplit("::", 1)[0] not in rec["id"]]
        ok = not used
        r.inst({"rule": ty, "applied_from": [rec["id"] for rec, c in used]}, ok)
        for rec, c in used:
            r.functions.add(rec["id"])
            r.violate(rec["id"], f"disabled-rule-applied:{ty.rsplit('::', 1)[-1]}", f"{ty.rsplit('::', 1)[-1]} is applied although the project has it disabled: {why}", rec["file"], c.line)
    return r


def run(ctx):
    facts = ctx["facts"]
    res = [rule_vol_fold(facts), rule_vol_cse(facts), rule_vol_exists(facts), rule_limit(facts), rule_limitpd(facts), rule_outer(facts),
           rule_gsets(facts), rule_orall(facts), rule_distor(facts), rule_joincond(facts), rule_cselazy(facts), rule_deadrule(facts)]
    # shared clauses
    from . import c13
    res.append(c13.rule_flat(facts))
    try:
        from . import c20
        res.append(c20.rule_like(facts))
    except ImportError:
        pass
    try:
        from . import c11
        res.append(c11.rule_frame(facts))
    except ImportError:
        pass
    return res


CLAIM = {
    "text": "Path rules (edge dominance, must-pass-through, receiver provenance) and HIR match-table rules over the optimizer's rewrite "
            "functions decide the side conditions that make each rewrite an equivalence (volatility, LIMIT barrier, preserved side of outer "
            "joins, cast-flatten and LIKE guards) on all CFG paths. Plan equivalence on data is a value-level statement outside static reach; "
            "these clauses are the necessary conditions whose violation changes results (incl. the ∀∀ grouping-set test of aggregate pushdown). Plus: a join node re-built with the join type of an existing node keeps that node's condition unless the join type was tested to be Inner (a filter is merged into an ON clause only for INNER joins)."
            " Plus CSELAZY (CSE never descends into the conditionally evaluated operands of CASE / AND / OR) and DEADRULE (rewrite rules the project itself has disabled are not applied).",
    "note": "trusted: rustc MIR/HIR; deny/allow tables in rules/c02.py (filters never cross Limit; Limit only crosses Project); class of "
            "existential predicates discovered from the accumulator's initial constant",
    "technique": "static analysis: MIR edge-dominance/provenance rules + HIR match tables (rustc_private driver)",
}
