"""C17 — CSV reading (one clause): csv_core protocol at end of input.
csv_core completes a trailing record only when read_record is called with empty input after the
last chunk. Decided (must-pass-through on MIR of CsvReader::poll_pull): every path from the
stream read to a state write that marks the stream exhausted passes a CsvDecoder::decode call;
and since a drained csv_core reader stays in its End state, CsvReader::prepare resets/replaces
the decoder before the next file. Not decided: dialect/type inference, field contents."""
from .framework import RuleResult
from .mir import Fn, op_const

EXPLANATION = ("Must-pass-through rule on the MIR of glaredb_ext_csv::reader::CsvReader::poll_pull: the decoder is called on every "
               "path between reading the stream and declaring it exhausted (csv_core end-of-input protocol), and "
               "CsvReader::prepare resets the decoder. Necessary for the last record of a file without trailing newline to be returned. "
               "RFC-4180 field contents and type inference are not decided.")
NOT_DECIDED = ["dialect and type inference", "field contents / quoting", "chunk-boundary independence"]

READER = "glaredb_ext_csv::reader::CsvReader"


def run(ctx):
    facts = ctx["facts"]
    res = []
    r = RuleResult("C17-EOF", "decoder is drained (decode call) on every path from stream read to `stream_exhausted = true`", floor=1)
    rec = facts.fn(f"{READER}::poll_pull")
    if rec is None:
        r.missing_anchor(f"{READER}::poll_pull")
        return [r]
    fn = Fn(rec)
    r.functions.add(fn.id)
    reads = [c for c in fn.calls() if "poll_read" in c.name]
    decodes = {c.bb for c in fn.calls() if c.name.endswith("CsvDecoder::decode")}
    r.call_sites = len(reads) + len(decodes)
    # state writes with stream_exhausted = true
    writes = []
    for b, i, pl, rv, ln in fn.assigns():
        if rv[0] == "agg" and rv[1][0] == "adt" and rv[1][1].endswith("ReaderState") and "stream_exhausted" in rv[1][3]:
            k = rv[1][3].index("stream_exhausted")
            c = op_const(rv[2][k])
            if c and c.get("k") == "int" and c["v"] == 1:
                writes.append((b, ln))
    if not reads:
        r.missing_anchor("call of the file's poll_read in CsvReader::poll_pull")
    if not writes:
        r.missing_anchor("ReaderState::Flushing{stream_exhausted: true} construction in CsvReader::poll_pull")
    for rd in reads:
        for wb, ln in writes:
            # DFS from the read's return block to the write block avoiding decode blocks and the read itself
            seen, st, hit = set(), [rd.target], False
            while st:
                b = st.pop()
                if b in seen or b in decodes or b == rd.bb:
                    continue
                seen.add(b)
                if b == wb:
                    hit = True
                    break
                st.extend(fn.succ[b])
            ok = not hit
            r.inst({"fn": fn.id, "read_bb": rd.bb, "exhausted_write_line": ln, "decode_blocks": sorted(decodes)}, ok)
            if not ok:
                r.violate(fn.id, "stream_exhausted=true", "a path from the stream read reaches `stream_exhausted: true` without calling "
                          "CsvDecoder::decode: csv_core never sees end of input, so a final record without trailing newline is dropped",
                          rec["file"], ln)
    res.append(r)

    r2 = RuleResult("C17-RESET", "CsvReader::prepare resets or replaces the decoder for the next file", floor=1)
    rec = facts.fn(f"{READER}::prepare")
    if rec is None:
        r2.missing_anchor(f"{READER}::prepare")
    else:
        fn = Fn(rec)
        r2.functions.add(fn.id)
        resets = [c for c in fn.calls() if "CsvDecoder::reset" in c.name or c.name.endswith("csv_core::Reader::reset")]
        assigns = [1 for b, i, pl, rv, ln in fn.assigns() if any(isinstance(p, list) and p[0] == "f" and p[1] == "decoder" for p in pl[1])]
        ok = bool(resets or assigns)
        r2.inst({"fn": fn.id, "reset_calls": len(resets), "decoder_assignments": len(assigns)}, ok)
        if not ok:
            r2.violate(fn.id, "decoder-reset", "the decoder is neither reset nor replaced when a new file is prepared: after the end-of-input drain "
                       "csv_core stays in its End state (and partial-record state of the previous file leaks into the next)", rec["file"], rec["line"])
    res.append(r2)
    res.append(rule_eofonly(facts))
    return res


def _is_empty_input(fn, op, at):
    """the operand is `&[]` / `b""`: a promoted empty array (possibly unsized to a slice)"""
    o = fn.origin(op, at=at)
    if o[0] == "const":
        k = o[1]
        return k.get("k") == "promoted" and k.get("ty", "").replace(" ", "") in ("&[u8;0]",) or (k.get("k") == "c" and k.get("ty", "").replace(" ", "") == "&[u8;0]")
    return False


def _from_read(fn, op, at):
    if op[0] not in ("c", "m"):
        return False
    o = fn.origin(op, at=at, through_calls=("::branch", "::unwrap", "::expect"))
    return o[0] == "call" and "read" in o[1].name.rsplit("::", 1)[-1]


def rule_eofonly(facts):
    """The dual of C17-EOF: csv_core treats empty input as END OF DATA and completes the record in progress. Feeding it empty
    input where the end of the file has not been observed (e.g. after a fixed-size sample) turns a record cut by the buffer
    boundary into a complete, shorter record. Every decode call with constant empty input therefore sits behind a branch on the byte
    count some read returned."""
    from .mir import switch_edges
    r = RuleResult("C17-EOFONLY", "the end-of-input signal (decode with empty input) is only issued behind a branch on the byte count a read returned", floor=1)
    n_dec = 0
    for rec in facts.all_fns(["glaredb_ext_csv"]):
        if "CsvDecoder::decode" not in str(rec["bbs"]):
            continue
        fn = Fn(rec)
        for c in fn.calls():
            if not c.name.endswith("CsvDecoder::decode") or len(c.args) < 2:
                continue
            n_dec += 1
            if not _is_empty_input(fn, c.args[1], c.bb):
                continue
            r.functions.add(fn.id)
            r.call_sites += 1
            ok = False
            for b in range(fn.n):
                t = fn.term(b)
                if t[0] != "switch" or t[1][0] not in ("c", "m"):
                    continue
                on_count = _from_read(fn, t[1], b)
                if not on_count:
                    for s_ in fn.bbs[b]["s"]:
                        if s_[0] == "a" and s_[1] == [t[1][1][0], []] and s_[2][0] == "bin" and s_[2][1] in ("Eq", "Ne", "Lt", "Le", "Gt", "Ge"):
                            on_count = _from_read(fn, s_[2][2], b) or _from_read(fn, s_[2][3], b)
                if on_count and any(fn.edge_dominates(b, tgt, c.bb) for _v, tgt in switch_edges(t)):
                    ok = True
                    break
            r.inst({"fn": fn.id, "line": c.line, "behind_branch_on_read_count": ok}, ok)
            if not ok:
                r.violate(fn.id, "end-of-input-without-eof", f"CsvDecoder::decode is given empty input (csv_core's end-of-data signal) at line {c.line} without a "
                          "branch on what a read returned: a record cut off by the buffer boundary is completed as if the file ended there", rec["file"], c.line)
    r.notes.append(f"{n_dec} decode call sites examined")
    return r

CLAIM = {
    "text": "Must-pass-through on the MIR of CsvReader::poll_pull (decoder called on every path to `stream_exhausted: true`) and a "
            "reset rule on CsvReader::prepare: the csv_core end-of-input protocol, a necessary condition for returning the last record of "
            "any file lacking a trailing newline. Record contents/type inference are runtime values and are not decided. Plus the dual: the end-of-input signal (decode with constant empty input) is issued only behind a branch on the byte count a read returned, so a sample or buffer boundary is never treated as the end of the file.",
    "note": "trusted: rustc MIR and csv_core's documented contract (empty input = end of data; reader stays in End until reset)",
    "technique": "static analysis: MIR must-pass-through / API-protocol rule (rustc_private driver)",
}
