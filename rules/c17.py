"""C17 — CSV reading (one clause): csv_core protocol at end of input.
csv_core completes a trailing record only when read_record is called with empty input after the
last chunk. Decided (must-pass-through on MIR of CsvReader::poll_pull): every path from the
stream read to a state write that marks the stream exhausted passes a CsvDecoder::decode call;
and since a drained csv_core reader stays in its End state, CsvReader::prepare resets/replaces
the decoder before the next file. Not decided: dialect/type inference, field contents."""
from .framework import RuleResult
from .mir import Fn, op_const, switch_edges

EXPLANATION = ("Must-pass-through rule on the MIR of glaredb_ext_csv::reader::CsvReader::poll_pull: the decoder is called on every "
               "path between reading the stream and declaring it exhausted (csv_core end-of-input protocol), and "
               "CsvReader::prepare resets the decoder. Necessary for the last record of a file without trailing newline to be returned. "
               "RFC-4180 field contents and type inference are not decided.")
NOT_DECIDED = ["dialect and type inference", "field contents / quoting", "chunk-boundary independence"]

READER = "glaredb_ext_csv::reader::CsvReader"


def run(ctx):
    facts = ctx["facts"]
    res = []
    r = RuleResult("C17-EOF", "decoder is drained (decode call) on every path from stream read to `stream_exhausted = true`", floor=1)
    rec = facts.fn(f"{READER}::poll_pull")
    if rec is None:
        r.missing_anchor(f"{READER}::poll_pull")
        return [r]
    fn = Fn(rec)
    r.functions.add(fn.id)
    reads = [c for c in fn.calls() if "poll_read" in c.name]
    decodes = {c.bb for c in fn.calls() if c.name.endswith("CsvDecoder::decode")}
    r.call_sites = len(reads) + len(decodes)
    # state writes with stream_exhausted = true
    writes = []
    for b, i, pl, rv, ln in fn.assigns():
        if rv[0] == "agg" and rv[1][0] == "adt" and rv[1][1].endswith("ReaderState") and "stream_exhausted" in rv[1][3]:
            k = rv[1][3].index("stream_exhausted")
            c = op_const(rv[2][k])
            if c and c.get("k") == "int" and c["v"] == 1:
                writes.append((b, ln))
    if not reads:
        r.missing_anchor("call of the file's poll_read in CsvReader::poll_pull")
    if not writes:
        r.missing_anchor("ReaderState::Flushing{stream_exhausted: true} construction in CsvReader::poll_pull")
    for rd in reads:
        for wb, ln in writes:
            # DFS from the read's return block to the write block avoiding decode blocks and the read itself
            seen, st, hit = set(), [rd.target], False
            while st:
                b = st.pop()
                if b in seen or b in decodes or b == rd.bb:
                    continue
                seen.add(b)
                if b == wb:
                    hit = True
                    break
                st.extend(fn.succ[b])
            ok = not hit
            r.inst({"fn": fn.id, "read_bb": rd.bb, "exhausted_write_line": ln, "decode_blocks": sorted(decodes)}, ok)
            if not ok:
                r.violate(fn.id, "stream_exhausted=true", "a path from the stream read reaches `stream_exhausted: true` without calling "
                          "CsvDecoder::decode: csv_core never sees end of input, so a final record without trailing newline is dropped",
                          rec["file"], ln)
    res.append(r)

    r2 = RuleResult("C17-RESET", "CsvReader::prepare resets or replaces the decoder for the next file", floor=1)
    rec = facts.fn(f"{READER}::prepare")
    if rec is None:
        r2.missing_anchor(f"{READER}::prepare")
    else:
        fn = Fn(rec)
        r2.functions.add(fn.id)
        resets = [c for c in fn.calls() if "CsvDecoder::reset" in c.name or c.name.endswith("csv_core::Reader::reset")]
        assigns = [1 for b, i, pl, rv, ln in fn.assigns() if any(isinstance(p, list) and p[0] == "f" and p[1] == "decoder" for p in pl[1])]
        ok = bool(resets or assigns)
        r2.inst({"fn": fn.id, "reset_calls": len(resets), "decoder_assignments": len(assigns)}, ok)
        if not ok:
            r2.violate(fn.id, "decoder-reset", "the decoder is neither reset nor replaced when a new file is prepared: after the end-of-input drain "
                       "csv_core stays in its End state (and partial-record state of the previous file leaks into the next)", rec["file"], rec["line"])
    res.append(r2)
    res.append(rule_eofonly(facts))
    res.append(rule_fieldutf8(facts))
    res.append(rule_clear(facts))
    res.append(rule_infer(facts))
    res.append(rule_hdr(facts))
    res.append(rule_sampleeof(facts))
    res.append(rule_unseen(facts))
    return res


def rule_unseen(facts):
    """A column without any value in the sample (sample = header only, or the column is NULL throughout) carries no evidence for a
    narrow type; whatever is announced has to accept every value that may follow. Only Utf8 does. Decided on
    CandidateType::as_datatype: the arm of the variant that means "nothing seen" (discriminant 0, `Unknown`) builds DataType::utf8."""
    from .mir import disc_switches
    r = RuleResult("C17-UNSEEN", "a column with no value in the inference sample is announced as Utf8", floor=1)
    rec = facts.fn("glaredb_ext_csv::schema::CandidateType::as_datatype")
    adt = [a for a in facts.records("adt") if a.get("id", a.get("name", "")).endswith("schema::CandidateType")]
    if rec is None:
        r.missing_anchor("CandidateType::as_datatype")
        return r
    fn = Fn(rec)
    r.functions.add(fn.id)
    names = None
    if adt:
        vs = adt[0].get("variants") or []
        names = [v.get("name") if isinstance(v, dict) else v for v in vs]
    if not names or "Unknown" not in names:
        r.missing_anchor("CandidateType has no variant named Unknown (the rule's slot for 'nothing seen')")
        return r
    idx = names.index("Unknown")
    sw = disc_switches(fn)
    if not sw:
        r.missing_anchor("as_datatype: no discriminant switch")
        return r
    b, _pl, t = sw[0]
    tgt = dict((v, bb) for v, bb in t[2]).get(idx, t[3])
    made = []
    seen, st = set(), [tgt]
    while st:
        x = st.pop()
        if x in seen:
            continue
        seen.add(x)
        for c in fn.calls():
            if c.bb == x and c.name.startswith("glaredb_core::arrays::datatype::DataType::"):
                made.append(c.name.rsplit("::", 1)[-1])
        if not made:
            st.extend(fn.succ[x])
    ok = made[:1] == ["utf8"]
    r.inst({"fn": fn.id, "unknown_discriminant": idx, "datatype_built": made[:1]}, ok)
    if not ok:
        r.violate(fn.id, "unseen-column-narrow-type", f"a column with no value in the sample is announced as {made[:1] or '?'}: the scan fails on the first value past the sample "
                  "that this type does not accept (header-only sample: every column Boolean)", rec["file"], rec["line"])
    return r


def rule_sampleeof(facts):
    """Schema and dialect inference decode a sample of the first file. When the sample is the whole file, its last record counts even
    without a trailing newline ('a,b\\n1,2' was inferred from the header alone: every column Boolean, the scan then failed on '1').
    Decided: both sample decoders - ReadCsv::bind and the dialect inference it calls - contain a decode call with empty input (the
    end-of-input signal; C17-EOFONLY decides that it is only issued when a read has shown the end of the file)."""
    r = RuleResult("C17-SAMPLEEOF", "the inference sample decoders signal end of input when the sample is the whole file", floor=2)
    bind = [x for x in facts.fns_matching(lambda i: "read_csv::ReadCsv" in i and "::bind::{closure#0}" in i and i.count("{closure") == 1)]
    if not bind:
        r.missing_anchor("ReadCsv::bind async body")
        return r
    fn = Fn(bind[0])

    def has_eof(f2):
        return any(c.name.endswith("CsvDecoder::decode") and len(c.args) > 1 and _is_empty_input(f2, c.args[1], c.bb) for c in f2.calls())

    def reaches_eof(fid, depth=0, seen=None):
        seen = seen or set()
        if fid in seen or depth > 3:
            return False
        seen.add(fid)
        rec = facts.fn(fid)
        if rec is None:
            return False
        f2 = Fn(rec)
        if has_eof(f2):
            return True
        return any(reaches_eof(c.name, depth + 1, seen) for c in f2.calls() if c.name.startswith("glaredb_ext_csv::"))

    r.functions.add(fn.id)
    ok = has_eof(fn)
    r.inst({"fn": fn.id, "schema_sample_signals_eof": ok}, ok)
    if not ok:
        r.violate(fn.id, "sample-without-eof", "the schema sample is decoded without ever signalling end of input: a last record without newline is invisible to "
                  "type inference", bind[0]["file"], bind[0]["line"])
    dial = [c for c in fn.calls() if c.name.startswith("glaredb_ext_csv::dialect::DialectOptions::infer")]
    if not dial:
        r.missing_anchor("ReadCsv::bind: no call into dialect inference")
        return r
    ok = any(reaches_eof(c.name) for c in dial)
    r.inst({"fn": fn.id, "dialect_inference_called": sorted({c.name.rsplit("::", 1)[-1] for c in dial}), "some_path_signals_eof": ok}, ok)
    if not ok:
        r.violate(fn.id, "dialect-sample-without-eof", "none of the dialect inference entry points called from bind signals end of input: with a single unterminated "
                  "data row fewer than two records are seen and the dialect falls back to the default", bind[0]["file"], dial[0].line)
    return r


def rule_hdr(facts):
    """Header detection declares the first record a header when one of its fields is not valid for the column's inferred type. An empty
    field is a NULL and valid for every type; treating it as invalid eats the first data row of a headerless file whose first row has a
    NULL. Decided: CandidateType::is_valid tests for the empty string before it consults a parser."""
    r = RuleResult("C17-HDR", "CandidateType::is_valid accepts the empty field before consulting any type parser", floor=1)
    rec = facts.fn("glaredb_ext_csv::schema::CandidateType::is_valid")
    if rec is None:
        r.missing_anchor("glaredb_ext_csv::schema::CandidateType::is_valid")
        return r
    fn = Fn(rec)
    r.functions.add(fn.id)
    empties = [c for c in fn.calls() if c.name.endswith("str>::is_empty") or c.name.endswith("::is_empty")]
    parsers = [c for c in fn.calls() if c.name.endswith("Parser>::parse") or c.name.endswith("::parse")]
    ok = bool(empties) and all(any(fn.dominates(e.bb, p_.bb) for e in empties) for p_ in parsers)
    r.inst({"fn": fn.id, "is_empty_checks": len(empties), "parser_calls": len(parsers), "empty_checked_first": ok}, ok)
    if not ok:
        r.violate(fn.id, "empty-field-invalid", "is_valid hands the empty field to the type parsers (which reject it): a headerless file whose first row contains an empty field "
                  "loses that row to header detection", rec["file"], rec["line"])
    return r


# value sets accepted by the candidate types' parsers: A ⊆ B
INFER_SUBSET = {("Boolean", "Utf8"), ("Int64", "Float64"), ("Int64", "Utf8"), ("Float64", "Utf8"), ("Timestamp", "Utf8")}


def rule_infer(facts):
    """Type inference walks each sampled column through candidate types. When a value is rejected by the current candidate A the
    candidate moves to B; the values accepted so far under A are not looked at again, so the move is only sound if every value A accepts
    is accepted by B (Int64 ⊆ Float64 ⊆ Utf8, Boolean ⊆ Utf8 - but 't' is not an Int64). Extracted from the MIR of update_from_input: the
    transition graph between variants (following the function's self-recursion through arms that always move on)."""
    from .mir import disc_switches, adt_variants
    r = RuleResult("C17-INFER", "every candidate-type transition of CSV type inference goes to a type that accepts all values of the type it leaves", floor=3)
    rec = facts.fn("glaredb_ext_csv::schema::CandidateType::update_from_input")
    variants = adt_variants(facts, "glaredb_ext_csv::schema::CandidateType")
    if rec is None or not variants:
        r.missing_anchor("glaredb_ext_csv::schema::CandidateType::update_from_input")
        return r
    fn = Fn(rec)
    r.functions.add(fn.id)
    by_disc = {d: n for n, d in variants.items()}
    sw = [(b, t) for b, pl, t in disc_switches(fn) if pl[0] == 1]
    if not sw:
        r.missing_anchor("match on *self in update_from_input")
        return r
    b0, t0 = sw[0]
    assigns = {}
    for b, i, pl, rv, ln in fn.assigns():
        if rv[0] == "agg" and rv[1][0] == "adt" and rv[1][1].endswith("schema::CandidateType"):
            assigns[b] = rv[1][2]
    edges, always = {}, set()
    for v, tgt in switch_edges(t0):
        if v is None or v not in by_disc:
            continue
        a = by_disc[v]
        region = fn.reachable_from(tgt, avoid=[b0])
        targets = {assigns[b] for b in region if b in assigns}
        edges[a] = targets
        # an arm that reassigns on every path to the return always moves on
        if targets and not any(e in fn.reachable_from(tgt, avoid=[b for b in region if b in assigns]) for e in fn.exits):
            always.add(a)
    for a, outs in sorted(edges.items()):
        # effective targets: follow arms that always move on
        eff, st = set(), list(outs)
        while st:
            x = st.pop()
            if x in eff:
                continue
            eff.add(x)
            if x in always:
                st.extend(edges.get(x, ()))
        final = {x for x in eff if x not in always}
        for bnm in sorted(final):
            ok = a == bnm or a == "Unknown" or (a, bnm) in INFER_SUBSET
            r.inst({"from": a, "to": bnm, "every_value_of_from_accepted_by_to": ok}, ok)
            if not ok:
                r.violate(fn.id, f"non-widening-transition:{a}->{bnm}", f"a column that was {a} so far can become {bnm}, but values accepted as {a} are not valid {bnm}: "
                          "the earlier rows of the sample no longer parse under the inferred type and the scan fails (or mis-types the column)", rec["file"], rec["line"])
    return r


def rule_clear(facts):
    """ByteRecords keeps two parallel buffers: field bytes (`buf_len`) and field ends (`ends_len`). A record that is still being
    decoded when the read buffer ends may own entries in either one alone (leading empty fields have ends but no bytes). Dropping
    "everything" after the completed records have been flushed is only right when *both* lengths show nothing beyond the last completed
    record: each length that is reset to zero must have been compared on the way."""
    r = RuleResult("C17-CLEAR", "ByteRecords::clear_completed resets buf_len / ends_len to zero only behind a comparison that reads that same length", floor=2)
    rec = facts.fn("glaredb_ext_csv::decoder::ByteRecords::clear_completed")
    if rec is None:
        r.missing_anchor("glaredb_ext_csv::decoder::ByteRecords::clear_completed")
        return r
    fn = Fn(rec)
    r.functions.add(fn.id)
    cmp_reads = {}
    for b, i, pl, rv, ln in fn.assigns():
        if rv[0] == "bin" and rv[1] in ("Eq", "Ne", "Lt", "Le", "Gt", "Ge"):
            for x in (rv[2], rv[3]):
                if x[0] in ("c", "m"):
                    o = fn.origin(x, at=b)
                    for p_ in (o[2] if len(o) > 2 and isinstance(o[2], list) else []):
                        if isinstance(p_, list) and p_[0] == "f":
                            cmp_reads.setdefault(p_[1], []).append(b)
                    # the operand may be arithmetic over the field
                    if o[0] == "rv":
                        for q in str(o[1]).split("'"):
                            if q in ("buf_len", "ends_len"):
                                cmp_reads.setdefault(q, []).append(b)
    for b, i, pl, rv, ln in fn.assigns():
        flds = [p_[1] for p_ in pl[1] if isinstance(p_, list) and p_[0] == "f"]
        if not flds or flds[-1] not in ("buf_len", "ends_len"):
            continue
        c = op_const(rv[1]) if rv[0] == "use" else None
        if not (c and c.get("k") == "int" and c.get("v") == 0):
            continue
        ok = any(fn.dominates(g, b) and g != b for g in cmp_reads.get(flds[-1], []))
        r.inst({"fn": fn.id, "line": ln, "reset": flds[-1], "compared_before": ok}, ok)
        if not ok:
            r.violate(fn.id, f"reset-without-check:{flds[-1]}", f"`{flds[-1]}` is reset to 0 at line {ln} without having been compared: the entries a partially decoded record "
                      "owns in that buffer (e.g. the ends of leading empty fields) are dropped when the read buffer happens to end there", rec["file"], ln)
    return r


def rule_fieldutf8(facts):
    """Read-buffer boundaries fall anywhere, also inside a multi-byte character; only a *decoded field* is a complete byte string.
    So (1) bytes become `&str` in the CSV reader only through the checked `from_utf8` on a decoded field, never `from_utf8_unchecked`;
    (2) no UTF-8 validation is applied to the raw read buffer (it would reject valid files depending on where a chunk ends)."""
    r = RuleResult("C17-UTF8", "CSV fields become text through the checked from_utf8 on decoded fields only: no from_utf8_unchecked, no validation of raw read chunks", floor=2)
    for rec in facts.all_fns(["glaredb_ext_csv"], contains="from_utf8"):
        if "::tests::" in rec["id"]:
            continue
        fn = Fn(rec)
        for c in fn.calls():
            last = c.name.rsplit("::", 1)[-1]
            if not last.startswith("from_utf8"):
                continue
            r.functions.add(fn.id)
            r.call_sites += 1
            o = fn.origin(c.args[0], at=c.bb, through_calls=("::deref", "::index", "::as_slice", "::as_ref", "::unwrap", "::field", "::branch")) if c.args else None
            proj = o[2] if o and len(o) > 2 and isinstance(o[2], list) else []
            raw_buf = any(isinstance(p_, list) and p_[0] == "f" and "read_buf" in p_[1] for p_ in proj)
            unchecked = "unchecked" in last
            ok = not unchecked and not raw_buf
            r.inst({"fn": fn.id, "line": c.line, "call": last, "on_raw_read_buffer": raw_buf}, ok)
            if unchecked:
                r.violate(fn.id, "from_utf8_unchecked", f"`{last}` at line {c.line}: file bytes become a &str without validation", rec["file"], c.line)
            elif raw_buf:
                r.violate(fn.id, "utf8-check-on-raw-chunk", f"`{last}` at line {c.line} validates the raw read buffer: a chunk may end (and the next one start) inside a multi-byte "
                          "character, so a valid file is rejected or not depending on where the read boundary falls", rec["file"], c.line)
    return r


def _is_empty_input(fn, op, at):
    """the operand is `&[]` / `b""`: a promoted empty array (possibly unsized to a slice)"""
    o = fn.origin(op, at=at)
    if o[0] == "const":
        k = o[1]
        return k.get("k") == "promoted" and k.get("ty", "").replace(" ", "") in ("&[u8;0]",) or (k.get("k") == "c" and k.get("ty", "").replace(" ", "") == "&[u8;0]")
    return False


def _from_read(fn, op, at):
    """the operand is the byte count a read returned (directly, or - in an async body - the Ready value of polling a future that a
    read call produced and that was parked in the coroutine state)"""
    if op[0] not in ("c", "m"):
        return False
    o = fn.origin(op, at=at, through_calls=("::branch", "::unwrap", "::expect"))
    if o[0] != "call":
        return False
    if "read" in o[1].name.rsplit("::", 1)[-1]:
        return True
    if o[1].name.endswith("Future>::poll") and o[1].args:
        fo = fn.origin(o[1].args[0], at=o[1].bb, through_calls=("new_unchecked", "Pin::<Ptr>::new", "into_future", "::deref_mut", "::as_mut"))
        if fo[0] == "call":
            return "read" in fo[1].name.rsplit("::", 1)[-1]
        if fo[0] == "arg" and len(fo) > 2:
            key = [p_ for p_ in fo[2] if isinstance(p_, list) and p_[0] in ("d", "f") and (p_[0] == "d" or p_[2].startswith("closure:"))]
            for b, i_, pl, rv, ln in fn.assigns():
                pk = [p_ for p_ in (pl[1] if len(pl) > 1 else []) if isinstance(p_, list) and p_[0] in ("d", "f") and (p_[0] == "d" or p_[2].startswith("closure:"))]
                if key and pk == key and rv[0] == "use" and rv[1][0] in ("c", "m"):
                    so = fn.origin(rv[1], at=b, through_calls=("into_future",))
                    if so[0] == "call" and "read" in so[1].name.rsplit("::", 1)[-1]:
                        return True
    return False


def _cond_kind(fn, t, b):
    """classify a switch condition: 'read' (decided by a read's byte count), ('param', k) (a bool parameter), or None"""
    if t[1][0] not in ("c", "m"):
        return None
    if _from_read(fn, t[1], b):
        return "read"
    o = fn.origin(t[1], at=b)
    if o[0] == "rv" and o[1][0] == "bin" and o[1][1] in ("Eq", "Ne", "Lt", "Le", "Gt", "Ge"):
        if _from_read(fn, o[1][2], b) or _from_read(fn, o[1][3], b):
            return "read"
    if o[0] == "arg" and not (len(o) > 2 and o[2]):
        return ("param", o[1])
    return None


def _eof_guarded(facts, fns, fid, bb, depth=0):
    """Is block `bb` of function `fid` only executed when a read has shown the end of the input?  Either a branch on a read's byte
    count edge-dominates it; or a branch on a bool parameter does and every caller passes `false` or passes `true` from a site that is
    itself guarded; or nothing in this function decides and every call site of the function is guarded (wrapper)."""
    from .mir import switch_edges
    if depth > 3 or fid not in fns:
        return False, "call chain too deep / function not found"
    fn = fns[fid]
    params = []
    for b in range(fn.n):
        t = fn.term(b)
        if t[0] != "switch" or not any(fn.edge_dominates(b, tgt, bb) for _v, tgt in switch_edges(t)):
            continue
        k = _cond_kind(fn, t, b)
        if k == "read":
            return True, "branch on a read's byte count"
        if k:
            params.append(k[1])
    callers = []
    for cid, cfn in fns.items():
        for c in cfn.calls():
            if c.name == fid:
                callers.append((cid, cfn, c))
    if not callers:
        return False, "no branch on a read count and no caller inside the crate to carry the obligation"
    for cid, cfn, c in callers:
        passes_false = False
        for k in params:
            idx = k - 1
            if idx < len(c.args):
                kc = op_const(c.args[idx]) if c.args[idx][0] == "k" else None
                if kc and kc.get("k") == "int" and kc.get("v") == 0:
                    passes_false = True
                elif c.args[idx][0] in ("c", "m"):
                    o = cfn.origin(c.args[idx], at=c.bb)
                    if o[0] == "rv" and o[1][0] == "bin" and (_from_read(cfn, o[1][2], c.bb) or _from_read(cfn, o[1][3], c.bb)):
                        passes_false = True      # the flag itself is the read-count comparison
        if passes_false:
            continue
        ok, why = _eof_guarded(facts, fns, cid, c.bb, depth + 1)
        if not ok:
            return False, f"caller {cid.rsplit('::', 2)[-2]}::{cid.rsplit('::', 1)[-1]} line {c.line}: {why}"
    return True, "every caller passes false or calls from a site behind a branch on a read's byte count"


def rule_eofonly(facts):
    """The dual of C17-EOF: csv_core treats empty input as END OF DATA and completes the record in progress. Feeding it empty
    input where the end of the file has not been observed (e.g. after a fixed-size sample) turns a record cut by the buffer
    boundary into a complete, shorter record. Every decode call with constant empty input therefore sits behind a branch on the byte
    count some read returned - in the same function, or (for helpers taking an `at end` flag / wrappers) at every call site."""
    r = RuleResult("C17-EOFONLY", "the end-of-input signal (decode with empty input) is only issued behind a branch on the byte count a read returned", floor=1)
    n_dec = 0
    fns = {}
    for rec in facts.all_fns(["glaredb_ext_csv"]):
        if "::tests::" in rec["id"]:
            continue
        fns[rec["id"]] = Fn(rec)
    for fid, fn in fns.items():
        if "CsvDecoder::decode" not in str(fn.rec["bbs"]):
            continue
        for c in fn.calls():
            if not c.name.endswith("CsvDecoder::decode") or len(c.args) < 2:
                continue
            n_dec += 1
            if not _is_empty_input(fn, c.args[1], c.bb):
                continue
            r.functions.add(fn.id)
            r.call_sites += 1
            ok, why = _eof_guarded(facts, fns, fid, c.bb)
            r.inst({"fn": fn.id, "line": c.line, "behind_branch_on_read_count": ok, "how": why}, ok)
            if not ok:
                r.violate(fn.id, "end-of-input-without-eof", f"CsvDecoder::decode is given empty input (csv_core's end-of-data signal) at line {c.line} without a "
                          f"branch on what a read returned ({why}): a record cut off by the buffer boundary is completed as if the file ended there", fn.rec["file"], c.line)
    r.notes.append(f"{n_dec} decode call sites examined")
    return r

CLAIM = {
    "text": "Must-pass-through on the MIR of CsvReader::poll_pull (decoder called on every path to `stream_exhausted: true`) and a "
            "reset rule on CsvReader::prepare: the csv_core end-of-input protocol, a necessary condition for returning the last record of "
            "any file lacking a trailing newline. Record contents/type inference are runtime values and are not decided. Plus the dual: the end-of-input signal (decode with constant empty input) is issued only behind a branch on the byte count a read returned, so a sample or buffer boundary is never treated as the end of the file. Plus: CSV fields become text only through the checked from_utf8 on decoded fields (no unchecked conversion, no validation of raw read chunks); ByteRecords resets a length only behind a comparison that reads it; every candidate-type transition of type inference goes to a type that accepts all values of the type it leaves."
            " Plus HDR: the empty field is valid for every candidate type, so header detection does not eat a first data row that has a NULL."
            " Plus SAMPLEEOF: the inference sample decoders (schema and dialect) signal end of input when the sample is the whole file; EOFONLY follows the at-end flag through helper parameters and wrappers to the read-count comparison at the call site."
            " Plus UNSEEN: a column with no value in the sample is announced as Utf8.",
    "note": "trusted: rustc MIR and csv_core's documented contract (empty input = end of data; reader stays in End until reset)",
    "technique": "static analysis: MIR must-pass-through / API-protocol rule (rustc_private driver)",
}
