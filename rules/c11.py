"""C11 — scan pushdown and multi-file scans only skip work, never change rows (narrow clauses).
  C11-PRUNE  a row group is pruned (Ok(true)) only when both statistics are exact and under a *strict* comparison
             min > constant or max < constant with the operands in that order, evaluated in the order of the column's
             logical type (the constant's type), not of the physical statistics type; NULL constants / missing stats ⇒ false
  C11-FRAME  ScanFilterPushdown only adds to `scan_filters` (clones of the filter expression): it never assigns the
             plan, takes/replaces a Filter node or its expression — the Filter stays above the scan
  C11-FILES  multi-file scans give partition p the files p, p+n, p+2n, …: `skip(index).step_by(partitions)` with the
             skip argument flowing from the partition index and the step from the `partitions` parameter
Not decided: statistic/constant conversions (AsPrimitive wrap), glob matching, filter evaluation itself."""
import re
from .framework import RuleResult
from .mir import Fn, op_const, controlling_calls, resolve_bool, switch_edges, taint, operand_locals

EXPLANATION = ("MIR dominance rules on every RowGroupPruner::should_prune implementation (prune ⇒ exact stats ∧ strict range exclusion), a "
               "write-set (frame) rule on ScanFilterPushdown, and a provenance rule on the disjoint-cover idiom that assigns files to "
               "partitions. Necessary for pushdown to only skip row groups that cannot match and for every file to be read exactly once; "
               "value conversions of statistics are not decided.")
NOT_DECIDED = ["AsPrimitive conversions of statistics (wrap-around)", "glob matching", "scan filter evaluation on rows"]


def _field_path(o):
    return [p[1] for p in (o[2] if len(o) > 2 and isinstance(o[2], list) else []) if isinstance(p, list) and p[0] == "f"]


THRU = ("::as_", "::as_ref", "::unwrap", "::expect", "::branch", "::clone", "::deref", "::next", "::into_iter", "::iter", "::try_unwrap", "::borrow")


def rule_prune(facts):
    r = RuleResult("C11-PRUNE", "prune ⇒ exact statistics ∧ strict `min > c` / `max < c`", floor=1)
    recs = facts.fns_matching(lambda i: i.endswith("RowGroupPruner<T>>::should_prune") or ("RowGroupPruner" in i and i.endswith("::should_prune")))
    n_true = 0
    for rec in recs:
        fn = Fn(rec)
        r.functions.add(fn.id)
        # Ok(true) sites
        sites = []
        for b, i, pl, rv, ln in fn.assigns():
            if rv[0] == "agg" and rv[1][0] == "adt" and rv[1][1].endswith("result::Result") and rv[1][2] == "Ok":
                c = op_const(rv[2][0]) if rv[2] else None
                if c and c.get("ty") == "bool" and c.get("v") == 1:
                    sites.append((b, ln))
                elif c is None:
                    # computed bool: must not be a prune decision we cannot see
                    o = fn.origin(rv[2][0], at=b)
                    if not (o[0] == "const"):
                        sites.append((b, ln))
        for b, ln in sites:
            n_true += 1
            ctl = controlling_calls(fn, b)
            # exactness: reads of the two flags with polarity true
            exact = {"is_min_value_exact": False, "is_max_value_exact": False}
            for sb in range(fn.n):
                t = fn.term(sb)
                if t[0] != "switch" or t[4] != "bool" or t[1][0] not in ("c", "m"):
                    continue
                # flag read: bool local copied from stats.<flag>, possibly negated / &&-combined
                cur, inv = t[1][1][0], False
                for _ in range(4):
                    ds = [d for d in fn.defs.get(cur, []) if d[0] == "a" and not (d[3][0] == "use" and d[3][1][0] == "k")]
                    if len(ds) != 1:
                        break
                    rv2 = ds[0][3]
                    if rv2[0] == "un" and rv2[1] == "Not":
                        inv = not inv
                        cur = rv2[2][1][0]
                        continue
                    if rv2[0] == "use" and rv2[1][0] in ("c", "m"):
                        flds = [p[1] for p in rv2[1][1][1] if isinstance(p, list) and p[0] == "f"]
                        if flds and flds[-1] in exact:
                            for v, tgt in switch_edges(t):
                                if fn.edge_dominates(sb, tgt, b) and ((v != 0) != inv):
                                    exact[flds[-1]] = True
                            break
                        cur = rv2[1][1][0]
                        continue
                    break
            strict = None
            why = []
            domain_bad = []
            for c, truth in ctl:
                op = c.decl.rsplit("::", 1)[-1] if c.decl.startswith("std::cmp::PartialOrd::") else None
                if op is None or not truth:
                    continue
                a0 = _field_path(fn.origin(c.args[0], through_calls=THRU, at=c.bb))
                a1 = _field_path(fn.origin(c.args[1], through_calls=THRU, at=c.bb))
                s0 = "min" if "min" in a0 else "max" if "max" in a0 else "const" if "const_eq_filters" in a0 or not a0 else "?"
                s1 = "min" if "min" in a1 else "max" if "max" in a1 else "const" if "const_eq_filters" in a1 or not a1 else "?"
                form = (s0, op, s1)
                if form in (("min", "gt", "const"), ("max", "lt", "const"), ("const", "lt", "min"), ("const", "gt", "max")):
                    strict = form
                    # the order used: statistics are stored in the physical type (i32/i64) but unsigned-ordered for unsigned
                    # columns; the comparison has to be in the order of the column's logical type, i.e. the constant's type
                    cmp_ty = c.callee.get("self") or (c.gargs or ["?"])[0]
                    if "PlainType>::Native" in cmp_ty or "ScalarValueUnwrap>::StorageType" not in cmp_ty:
                        domain_bad.append((op, cmp_ty))
                else:
                    why.append(form)
            ok = all(exact.values()) and strict is not None and not domain_bad
            r.inst({"fn": fn.id, "prune_line": ln, "exact_flags_checked": exact, "range_test": strict, "compared_in_logical_type": not domain_bad, "other_tests": why}, ok)
            if not ok:
                msg = []
                if not all(exact.values()):
                    msg.append(f"statistics exactness not established ({[k for k, v in exact.items() if not v]})")
                if strict is None:
                    msg.append(f"no strict `min > c` / `max < c` test controls this return (found {why or 'none'})")
                if domain_bad:
                    msg.append(f"the range test compares in `{domain_bad[0][1].split(' as ')[0].lstrip('<')}`'s physical type order, not in the order of the "
                               "column's logical type (unsigned statistics look negative in the signed physical type)")
                r.violate(fn.id, "prune-true", "returns Ok(true) (prune the row group) although " + "; ".join(msg) +
                          ": row groups that may contain matching rows are skipped", rec["file"], ln)
        if not sites:
            r.inst({"fn": fn.id, "never_prunes": True})
    if n_true == 0:
        r.missing_anchor("an Ok(true) return in a RowGroupPruner::should_prune implementation")
    return r


def rule_frame(facts):
    r = RuleResult("C11-FRAME", "ScanFilterPushdown's writes through the plan are only appends to scan_filters", floor=1)
    recs = facts.fns_matching(lambda i: i.startswith("glaredb_core::optimizer::scan_filter::") or "scan_filter::ScanFilterPushdown as" in i)
    if not recs:
        r.missing_anchor("glaredb_core::optimizer::scan_filter")
        return r
    appended = 0
    for rec in recs:
        fn = Fn(rec)
        r.functions.add(fn.id)
        plan_args = [l for l in range(1, fn.argc + 1) if "logical::operator::LogicalOperator" in fn.locals[l]]
        bad = []
        for b, i, pl, rv, ln in fn.assigns():
            if pl[1]:
                o = fn.origin(["c", [pl[0], []]], through_calls=("::deref_mut", "::index_mut", "::children_mut", "::next", "::iter_mut", "::into_iter"), at=b)
                if o[0] == "arg" and o[1] in plan_args and "&mut" in fn.locals[o[1]]:
                    bad.append(("assignment through the plan", ln))
        for c in fn.calls():
            nm = c.name
            if re.search(r"mem::(replace|take|swap)$", nm):
                for a in c.args:
                    o = fn.origin(a, through_calls=("::deref_mut", "::index_mut", "::children_mut", "::next", "::as_mut"), at=c.bb)
                    if o[0] == "arg" and o[1] in plan_args:
                        bad.append((nm.rsplit("::", 1)[-1] + " on the plan", c.line))
            if re.search(r"Vec::<T, A>::(append|push|extend|extend_from_slice|insert)$", nm) or nm.endswith("Extend>::extend"):
                o = fn.origin(c.args[0], through_calls=("::deref_mut", "::index_mut", "::as_mut"), at=c.bb)
                flds = _field_path(o)
                if flds and flds[-1] == "scan_filters":
                    appended += 1
                elif o[0] == "arg" and o[1] in plan_args:
                    bad.append((f"Vec mutation on plan field {flds}", c.line))
            if re.search(r"Vec::<T, A>::(remove|clear|truncate|drain|pop|swap_remove|retain)$", nm):
                o = fn.origin(c.args[0], through_calls=("::deref_mut", "::index_mut", "::children_mut"), at=c.bb)
                if o[0] == "arg" and o[1] in plan_args:
                    bad.append((nm.rsplit("::", 1)[-1] + " on a plan vector", c.line))
        r.inst({"fn": fn.id, "writes_outside_scan_filters": bad}, not bad)
        for what, ln in bad:
            r.violate(fn.id, "plan-write", f"{what}: ScanFilterPushdown must leave the Filter node and its expression in place (scan filters are hints; the "
                      "Filter above the scan is what guarantees the result)", rec["file"], ln)
    if appended == 0:
        r.missing_anchor("append to data_scan.scan_filters in ScanFilterPushdown")
    return r


def rule_files(facts):
    r = RuleResult("C11-FILES", "files → partitions by skip(partition index).step_by(partition count)", floor=4)
    for rec in facts.all_fns(["glaredb_core", "glaredb_ext_parquet", "glaredb_ext_csv", "glaredb_ext_iceberg", "glaredb_ext_delta"], contains="step_by"):
        if "step_by" not in str(rec["bbs"]) or "create_pull_partition_states" not in rec["id"]:
            continue
        fn = Fn(rec)
        for c in fn.calls():
            if not c.name.endswith("Iterator::step_by") and not c.decl.endswith("Iterator::step_by"):
                continue
            r.functions.add(fn.id)
            r.call_sites += 1
            step = fn.origin(c.args[1], at=c.bb)
            recv = fn.origin(c.args[0], at=c.bb)
            skip_ok = False
            if recv[0] == "call" and (recv[1].name.endswith("Iterator::skip") or recv[1].decl.endswith("Iterator::skip")):
                so = fn.origin(recv[1].args[1], at=recv[1].bb)
                skip_ok = so[0] == "arg" and so[1] == 2 and _field_path(so) in ([], ["0"])   # the closure parameter: index, or (index, item) of enumerate()
            # step: captured variable that is the enclosing function's usize parameter
            step_ok = False
            if step[0] == "arg" and step[1] == 1 and rec.get("parent"):
                flds = _field_path(step)
                prec = facts.fn(rec["parent"])
                if prec and flds:
                    pf = Fn(prec)
                    for b, i, pl, rv, ln in pf.assigns():
                        if rv[0] == "agg" and rv[1][0] == "closure" and rv[1][1] == fn.path:
                            k = int(flds[0]) if flds[0].isdigit() else None
                            if k is not None and k < len(rv[2]):
                                po = pf.origin(rv[2][k], at=b)
                                if po[0] == "arg" and pf.locals[po[1]].replace("&", "") == "usize" and not _field_path(po):
                                    step_ok = True
            ok = skip_ok and step_ok
            r.inst({"fn": fn.id, "line": c.line, "skip_is_partition_index": skip_ok, "step_is_partition_count": step_ok}, ok)
            if not ok:
                r.violate(fn.id, "skip-step_by", "files are not assigned with skip(<partition index>).step_by(<partitions>): "
                          + ("the skip offset is not the partition index; " if not skip_ok else "") + ("the stride is not the partition count" if not step_ok else "")
                          + " — some file is read twice or never", rec["file"], c.line)
    return r


def rule_colidx(facts):
    """the filters handed to a column reader are selected with the same (file-schema) index that selects the column's
    descriptor and data type"""
    r = RuleResult("C11-COLIDX", "per-column scan filters are selected by the same schema index as the column descriptor", floor=0)
    recs = facts.fns_matching(lambda i: i.endswith("StructReader::try_new_root::{closure#0}"))
    if not recs:
        r.notes.append("StructReader::try_new_root has no per-column closure any more: rule not applicable to the current shape")
        return r
    rec = recs[0]
    fn = Fn(rec)
    # (a) schema-index uses: Index::index on Vec<ColumnDescriptor> / Vec<Field>
    idx_roots = []
    for c in fn.calls():
        if c.decl == "std::ops::Index::index" and re.search(r"Vec<[\w:]*(ColumnDescriptor|Field)>", str(c.callee.get("args"))):
            o = fn.origin(c.args[1], at=c.bb)
            idx_roots.append((o[0], o[1] if o[0] in ("arg", "local") else None, tuple(_field_path(o)), c.line))
    # (b) filter selection: inner closure capturing an index, building ProjectedColumn::Data(<captured>)
    sel_roots = []
    for b, i, pl, rv, ln in fn.assigns():
        if rv[0] == "agg" and rv[1][0] == "closure":
            inner = facts.fn(rv[1][1])
            if not inner or "ProjectedColumn" not in str(inner["bbs"]):
                continue
            ifn = Fn(inner)
            for b2, i2, pl2, rv2, ln2 in ifn.assigns():
                if rv2[0] == "agg" and rv2[1][0] == "adt" and rv2[1][1].endswith("ProjectedColumn") and rv2[1][2] == "Data":
                    io = ifn.origin(rv2[2][0], at=b2)
                    flds = _field_path(io)
                    if io[0] == "arg" and io[1] == 1 and flds and flds[0].isdigit() and int(flds[0]) < len(rv[2]):
                        o = fn.origin(rv[2][int(flds[0])], at=b)
                        sel_roots.append((o[0], o[1] if o[0] in ("arg", "local") else None, tuple(_field_path(o)), ln2))
    if not idx_roots or not sel_roots:
        r.notes.append("try_new_root does not have the (filter-selection closure, schema index) shape: rule not applicable")
        return r
    r.functions.add(fn.id)
    ref = idx_roots[0][:3]
    ok = all(x[:3] == ref for x in idx_roots + sel_roots) and ref[0] == "arg"
    r.inst({"fn": fn.id, "schema_index_roots": [x[:3] for x in idx_roots], "filter_selection_roots": [x[:3] for x in sel_roots]}, ok)
    if not ok:
        r.violate(fn.id, "filter-index-space", "the index used to pick a column's pushed-down filters is not the file-schema index used for its descriptor/type: "
                  "a filter on one column prunes row groups by another column's statistics (matching rows disappear)", rec["file"], sel_roots[0][3])
    return r


def rule_globroot(facts):
    """Splitting a glob on '/' and dropping empty segments forgets what stood in front of the first segment: the URL scheme and bucket
    for object stores, the root for local paths ('/data/*.csv' became 'data' relative to the current directory, so a multi-file scan read
    other files or none). Sibling agreement over the FileSystem::glob_segments impls: each one that splits its argument also tests or
    strips the argument's prefix (starts_with / strip_prefix / is_absolute / has_root on a value that comes from the argument)."""
    r = RuleResult("C11-GLOBROOT", "every glob_segments implementation that splits the glob also consumes or tests the glob's prefix (scheme / filesystem root)", floor=3)
    for rec in facts.fns_matching(lambda i: i.endswith("FileSystem>::glob_segments")):
        fn = Fn(rec)
        calls = fn.calls()
        if not any(c.name.endswith("impl str>::split") for c in calls):
            continue
        pref = []
        for c in calls:
            if c.name.rsplit("::", 1)[-1] in ("starts_with", "strip_prefix", "is_absolute", "has_root") and c.args:
                o = fn.origin(c.args[0], through_calls=("::deref", "::as_ref", "::as_str", "Path::new"), at=c.bb)
                if o[0] == "arg":
                    pref.append(c.name.rsplit("::", 1)[-1])
        ok = bool(pref)
        r.functions.add(fn.id)
        r.inst({"fn": fn.id, "prefix_tests": sorted(set(pref))}, ok)
        if not ok:
            r.violate(fn.id, "glob-prefix-forgotten", "the glob is split into segments (empty ones dropped) without looking at its prefix: an absolute path is resolved "
                      "relative to the current directory", rec["file"], rec["line"])
    return r


def rule_filterand(facts):
    """A scan filter is a necessary condition for a row (the scan may skip whatever violates it). Only the conjuncts of an AND are
    necessary conditions; the operands of an OR are not (`id = 6 OR id = 100000` pushed down as two filters prunes the row group that
    holds id = 6). Decided in optimizer::scan_filter: every walk over the operands of a conjunction expression (a use of the
    `expressions` field of ConjunctionExpr) is dominated by a test of that conjunction's operator."""
    r = RuleResult("C11-FILTERAND", "scan-filter extraction walks the operands of a conjunction only after testing that it is an AND", floor=1)
    n = 0
    for rec in facts.all_fns(["glaredb_core"], contains="optimizer::scan_filter::"):
        if "optimizer::scan_filter::" not in rec["id"] or "::tests::" in rec["id"]:
            continue
        if "'expressions'" not in str(rec["bbs"]):
            continue
        fn = Fn(rec)
        tests = [c.bb for c in fn.calls() if "ConjunctionOperator" in c.name and c.name.rsplit("::", 1)[-1] in ("eq", "ne")]
        for b in range(fn.n):
            for s_ in fn.bbs[b]["s"]:
                if s_[0] == "a" and s_[2][0] == "disc" and "'op'" in str(s_[2]) and "Conjunction" in str(s_[2]):
                    tests.append(b)
        for c in fn.calls():
            if not c.args or not any("'expressions'" in str(fn.origin(a, at=c.bb)) and "ConjunctionExpr" in str(fn.origin(a, at=c.bb)) for a in c.args if a[0] in ("c", "m")):
                continue
            n += 1
            ok = any(fn.dominates(t, c.bb) and t != c.bb for t in tests)
            r.functions.add(fn.id)
            r.call_sites += 1
            r.inst({"fn": fn.id, "line": c.line, "operator_tested_first": ok}, ok)
            if not ok:
                r.violate(fn.id, "walks-any-conjunction", f"the operands of a conjunction are walked at line {c.line} without a test of its operator: the operands of an OR become "
                          "scan filters, and a row group is pruned although one of the alternatives matches rows in it", rec["file"], c.line)
    if n == 0:
        r.missing_anchor("optimizer::scan_filter: no walk over a conjunction's operands")
    return r


def run(ctx):
    facts = ctx["facts"]
    return [rule_prune(facts), rule_frame(facts), rule_files(facts), rule_colidx(facts), rule_globroot(facts), rule_filterand(facts)]


CLAIM = {
    "text": "MIR rules: (PRUNE) edge-dominance of every Ok(true) in should_prune by exact-statistics reads and a strict, correctly oriented "
            "range test; (FRAME) write-set inclusion for ScanFilterPushdown (only appends to scan_filters); (FILES) provenance of the "
            "skip/step_by arguments in every multi-file scan. These make pushdown and file distribution conservative by construction for "
            "all inputs; value conversions of statistics are not decided. (COLIDX) the Parquet struct reader matches pushed-down filters to "
            "column readers by column index, never by the position in the projection list. The range test of the pruner must also be evaluated in the order of the column's logical type (the constant's type), not of the signed physical statistics type."
            " Plus GLOBROOT: every glob_segments implementation that splits the glob also tests or strips its prefix (an absolute local glob keeps its root)."
            " Plus FILTERAND: scan-filter extraction walks the operands of a conjunction only after testing that it is an AND.",
    "note": "trusted: rustc MIR; comparison orientation is read from the operands' field provenance (stats.min / stats.max / filter constant)",
    "technique": "static analysis: MIR edge-dominance + frame (write-set) + provenance rules (rustc_private driver)",
}
