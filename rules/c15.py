"""C15 — every statement text yields a result or an error (narrow clauses).
  C15-UNIMPL  no `unimplemented!()` / `todo!()` in a function of the engine crates that anything calls
              (the repo's idiom for unsupported features is `not_implemented!`, which returns Err)
  C15-DEPTH   every recursion cycle of the parser reachable from parser::parse passes a function that
              checks a nesting-depth counter (otherwise nesting depth is bounded only by the stack)
Not decided: panic-freedom in general (unwrap/index reachability is a value question)."""
from .framework import RuleResult
from .mir import Fn, disc_switches, switch_edges
from .callgraph import CallGraph

EXPLANATION = ("Decides (a) over the MIR of all engine crates: panicking `unimplemented!/todo!` expansions only in functions with no caller "
               "in the workspace call graph; (b) over the parser's call graph: every strongly connected component reachable from "
               "parser::parse becomes acyclic once depth-checking functions are removed. Necessary for 'a result or an error' on "
               "unsupported types and deeply nested statements; general panic freedom is not decided.")
NOT_DECIDED = ["reachability of unwrap()/indexing panics", "stack use of binder/planner recursion", "session state after a failed statement"]

CRATES = ["glaredb_core", "glaredb_parser", "glaredb_ext_csv", "glaredb_ext_parquet", "glaredb_rt_native", "glaredb_error"]
PANIC_MACROS = {"unimplemented", "todo"}


def rule_unimpl(facts, cg):
    r = RuleResult("C15-UNIMPL", "no unimplemented!/todo! in any function reachable from the engine entry points", floor=5)
    live = cg.live(facts)
    for rec in facts.all_fns(CRATES, contains=tuple(PANIC_MACROS)):
        sites = []
        for bi, blk in enumerate(rec["bbs"]):
            t = blk["t"]
            if t[0] == "call" and len(t) > 8 and PANIC_MACROS & set(t[8]):
                sites.append((t[6], sorted(PANIC_MACROS & set(t[8]))[0], bi))
        if not sites:
            continue
        fid = rec["id"]
        r.functions.add(fid)
        root = rec.get("root") or fid
        is_live = fid in live or root in live
        for n, (line, mac, bi) in enumerate(sites):
            r.call_sites += 1
            dead_variant = _dead_variant_arm(facts, cg, Fn(rec), bi) if is_live else None
            if dead_variant:
                r.inst({"fn": fid, "macro": mac, "line": line, "status": f"exempt: arm of never-constructed variant {dead_variant}"})
                r.exempt(fid, f"unimplemented!/todo! sits in the match arm of {dead_variant}, a variant that no function reachable from the engine entry points constructs (checked on this run)")
                continue
            if not is_live:
                r.inst({"fn": fid, "macro": mac, "line": line, "status": "exempt: not reachable from any engine entry point"})
                r.exempt(fid, "contains unimplemented!/todo! but is not reachable from any engine entry point in the call graph "
                              "(registry rows, engine/runtime API, CLI, external-trait impls; dyn calls by class hierarchy + RTA) — checked on this run")
                continue
            callers = sorted(c for c in cg.callers(root) if c in live and c != root)
            r.inst({"fn": fid, "macro": mac, "line": line, "live_callers": len(callers)}, False)
            r.violate(fid, f"{mac}!", f"`{mac}!()` on an engine path (reachable from the engine entry points, e.g. via "
                      f"{callers[0] if callers else 'an entry point'}): the statement panics "
                      "(a panic in a rayon worker aborts the process) instead of returning a not-implemented error", rec["file"], line)
    return r


_ENUMS = {}


_DEADV = {}


def _variant_dead(facts, cg, enum, discr):
    """no live function constructs enum::variant except by re-building the very variant it just matched
    (Clone / into_owned style copies), and no const item constructs it"""
    key = (enum, discr)
    if key in _DEADV:
        return _DEADV[key]
    name = _ENUMS[enum][discr]
    dead = True
    live = cg.live(facts)
    all_fn = set().union(*cg.variants_by_fn.values()) if cg.variants_by_fn else set()
    if (enum, name) in (cg.inst_variants - all_fn):
        dead = False          # constructed in a const item
    for fid, vs in cg.variants_by_fn.items():
        if not dead:
            break
        if (enum, name) not in vs or fid not in live:
            continue
        rec = facts.fn(fid)
        if rec is None:
            dead = False
            break
        f2 = Fn(rec)
        copy_edges = []
        for sb, pl, t in disc_switches(f2):
            ty = f2.locals[pl[0]].replace("&mut ", "").lstrip("&").split("<", 1)[0]
            if ty == enum and not any(p != "*" for p in pl[1]):
                copy_edges += [(sb, tgt) for v, tgt in switch_edges(t) if v == discr]
        for b, i, pl, rv, ln in f2.assigns():
            if rv[0] == "agg" and rv[1][0] == "adt" and rv[1][1] == enum and rv[1][2] == name:
                if not any(f2.edge_dominates(sb, tgt, b) for sb, tgt in copy_edges):
                    dead = False
    _DEADV[key] = dead
    return dead


def _dead_variant_arm(facts, cg, fn, bb):
    """'Enum::Variant' if block bb is only reachable through the switch edge of a variant nobody constructs"""
    if not _ENUMS:
        for a in facts.records("adt"):
            if a["kind"] == "enum":
                _ENUMS[a["id"]] = {v["discr"]: v["name"] for v in a["variants"]}
    for sb, pl, t in disc_switches(fn):
        if any(p != "*" for p in pl[1]):
            continue
        ty = fn.locals[pl[0]].replace("&mut ", "").lstrip("&").split("<", 1)[0]
        if ty not in _ENUMS:
            continue
        for v, tgt in switch_edges(t):
            if v is None or v not in _ENUMS[ty]:
                continue
            if fn.edge_dominates(sb, tgt, bb) and _variant_dead(facts, cg, ty, v):
                return f"{ty}::{_ENUMS[ty][v]}"
    return None


def _is_depth_guard(fn):
    """function compares a `*depth*` field/local with a limit"""
    for b, i, pl, rv, ln in fn.assigns():
        if rv[0] == "bin" and rv[1] in ("Gt", "Ge", "Lt", "Le"):
            for op in (rv[2], rv[3]):
                o = fn.origin(op)
                proj = o[2] if len(o) > 2 and isinstance(o[2], list) else []
                if any(isinstance(p, list) and p[0] == "f" and "depth" in p[1].lower() for p in proj):
                    return True
                if o[0] in ("local", "arg") and "depth" in fn.local_name(o[1]).lower():
                    return True
    return False


def rule_depth(facts, cg):
    r = RuleResult("C15-DEPTH", "every parser recursion cycle passes a nesting-depth check", floor=1)
    roots = [n for n in cg.nodes if n == "glaredb_parser::parser::parse"]
    if not roots:
        r.missing_anchor("glaredb_parser::parser::parse")
        return r
    inp = lambda y: y in cg.nodes and cg.nodes[y]["krate"] == "glaredb_parser"
    reach = cg.reachable(roots, within=inp)
    guards = set()
    for n in reach:
        rec = facts.fn(n)
        if rec and _is_depth_guard(Fn(rec)):
            guards.add(n)
    # helpers: a function that calls a guard helper unconditionally at entry counts as guarded too
    for n in list(reach):
        if n not in guards and any(g in cg.edges.get(n, ()) and not (set(cg.edges.get(g, ())) & reach - guards) for g in guards):
            # caller of a leaf guard helper (the helper itself is not part of any cycle)
            guards.add(n)
    for comp in cg.sccs(reach):
        if len(comp) == 1 and comp[0] not in cg.edges.get(comp[0], ()):
            continue
        rest = [n for n in comp if n not in guards]
        sub = cg.sccs(rest)
        cyc = [c for c in sub if len(c) > 1 or c[0] in cg.edges.get(c[0], ())]
        cs = set(comp)
        indeg = {n: sum(1 for m in comp if n in cg.edges.get(m, ())) for n in comp}
        rep = sorted(comp, key=lambda n: (-indeg[n], n))[0]      # hub of the cycle: stable under small edits
        for n in comp:
            r.functions.add(n)
        ok = not cyc
        r.inst({"scc_size": len(comp), "representative": rep, "guards_in_scc": sorted(set(comp) & guards), "unguarded_cycles": len(cyc)}, ok)
        if not ok:
            worst = sorted(cyc, key=len)[-1]
            m = cg.nodes[sorted(worst)[0]]
            r.violate(rep, "recursion-cycle", f"parser recursion cycle of {len(comp)} functions (e.g. {', '.join(sorted(worst)[:3])}) has no "
                      "nesting-depth check: deeply nested input overflows the stack and aborts the process instead of returning an error",
                      m["file"], m["line"])
    return r


def rule_restore(facts, cg):
    """temporary overrides of SessionConfig fields (constant written over a value that was saved first) are restored on
    every exit; the `?` of a repeated get_prepared_by_name lookup is accepted as infeasible under a checked frame condition"""
    r = RuleResult("C15-RESTORE", "temporary SessionConfig overrides are restored on every exit of the function", floor=1)
    SESSION = "glaredb_core::engine::session::Session"
    for rec in facts.fns_matching(lambda i: i.startswith(SESSION + "::")):
        if "SessionConfig" not in str(rec["bbs"]):
            continue
        fn = Fn(rec)
        writes = []
        for b, i, pl, rv, ln in fn.assigns():
            fl = [p for p in pl[1] if isinstance(p, list) and p[0] == "f"]
            if len(fl) >= 2 and fl[-1][2].endswith("SessionConfig") and fl[-2][1] == "config":
                writes.append((b, i, fl[-1][1], rv, ln))
        by_field = {}
        for w in writes:
            by_field.setdefault(w[2], []).append(w)
        for field, ws in by_field.items():
            overrides = [w for w in ws if w[3][0] == "use" and w[3][1][0] == "k"]
            restores = [w for w in ws if not (w[3][0] == "use" and w[3][1][0] == "k")]
            # an override is "temporary" when the field was read (saved) in a block dominating it
            for ob, oi, _, orv, oln in overrides:
                saved = False
                for b, i, pl, rv, ln in fn.assigns():
                    if rv[0] == "use" and rv[1][0] in ("c", "m"):
                        fl = [p for p in rv[1][1][1] if isinstance(p, list) and p[0] == "f"]
                        if fl and fl[-1][1] == field and fl[-1][2].endswith("SessionConfig") and (fn.dominates(b, ob) or b == ob):
                            saved = True
                if not saved:
                    continue
                r.functions.add(fn.id)
                rb = {w[0] for w in restores}
                # DFS to exits avoiding restore blocks
                seen, st, escapes = set(), list(fn.succ[ob]), []
                prev = {}
                while st:
                    b = st.pop()
                    if b in seen or b in rb:
                        continue
                    seen.add(b)
                    if b in fn.exits:
                        escapes.append(b)
                        continue
                    for s in fn.succ[b]:
                        prev.setdefault(s, b)
                        st.append(s)
                bad = []
                # every `?` (from_residual) inside the unrestored region that can still reach an escaping exit is examined on its
                # own (several error edges usually share one return block), plus a direct path that passes no `?` at all
                region = seen
                can_escape, st2 = set(), list(escapes)
                rprev = {}
                for x in region:
                    for s in fn.succ[x]:
                        rprev.setdefault(s, set()).add(x)
                while st2:
                    x = st2.pop()
                    if x in can_escape:
                        continue
                    can_escape.add(x)
                    st2.extend(y for y in rprev.get(x, ()) if y in region)
                from .mir import Call
                residuals = [x for x in sorted(can_escape) if fn.term(x)[0] == "call" and str(fn.term(x)[1].get("def", "")).endswith("FromResidual::from_residual")]
                cands = []
                for x in residuals:
                    c = Call(fn, x, fn.term(x))
                    o = fn.origin(c.args[0], through_calls=("::branch",), at=x)
                    cands.append((x, o[1] if o[0] == "call" else None))
                if escapes:
                    plain = fn.reachable_from(ob, avoid=(set(residuals) | rb) - {ob})
                    if any(e in plain for e in escapes):
                        cands.append((None, "plain"))
                for e, culprit in cands:
                    if culprit == "plain":
                        bad.append((e, "return"))
                        continue
                    if culprit is not None and culprit.name.endswith("get_prepared_by_name"):
                        # frame condition: the same lookup succeeded before the override and nothing reachable from the calls
                        # in between writes Session.prepared
                        earlier = [c for c in fn.calls() if c.name == culprit.name and c is not culprit and fn.dominates(c.bb, ob)]
                        frame_ok = bool(earlier)
                        if frame_ok:
                            between = [c for c in fn.calls() if c.bb in fn.reach(earlier[0].bb) and culprit.bb in fn.reach(c.bb) and c.callee.get("local")]
                            reach = cg.reachable({c.name for c in between} | {c.name + "::{closure#0}" for c in between})
                            for n in reach:
                                rec2 = facts.fn(n)
                                if rec2 and "prepared" in str(rec2["bbs"]):
                                    f2 = Fn(rec2)
                                    for b2, i2, pl2, rv2, ln2 in f2.assigns():
                                        if any(isinstance(p, list) and p[0] == "f" and p[1] == "prepared" and p[2].endswith("::Session") for p in pl2[1]):
                                            frame_ok = False
                                        if rv2[0] == "ref" and rv2[1] and any(isinstance(p, list) and p[0] == "f" and p[1] == "prepared" and p[2].endswith("::Session") for p in rv2[2][1]):
                                            frame_ok = False
                        if frame_ok:
                            r.exempt(f"{fn.id} {field}", "the error edge of the repeated get_prepared_by_name lookup is infeasible: the same lookup succeeded at function entry and no "
                                     "function reachable from the calls in between writes Session.prepared (frame condition checked on this run)")
                            continue
                    bad.append((e, culprit.name if culprit else "return"))
                ok = not bad
                r.inst({"fn": fn.id, "field": field, "override_line": oln, "restore_writes": len(restores), "unrestored_exits": [x[1].rsplit("::", 1)[-1] for x in bad]}, ok)
                if not ok:
                    r.violate(fn.id, f"override:{field}", f"`config.{field}` is overridden temporarily but an exit through {sorted({x[1].rsplit('::', 1)[-1] for x in bad})} skips the restore: "
                              "after a failed statement the session keeps the overridden setting", rec["file"], oln)
    return r


def rule_enumidx(facts):
    """Binder / planner code runs on the session's own thread: a slice index panic there ends the session. The pattern
    `for (idx, x) in a.iter().enumerate() { b[idx] = … }` indexes one collection with positions of another; it is in bounds only if
    the two lengths were compared first (views and CTEs are re-bound on every use, so a count validated at CREATE time proves
    nothing about the columns found now)."""
    from .mir import Fn
    r = RuleResult("C15-ENUMIDX", "in binder/planner/resolver code, indexing a collection with the enumerate() position of another collection is dominated by a "
                   "comparison of two lengths", floor=1)
    for rec in facts.all_fns(["glaredb_core"], contains="Enumerate"):
        if not any(m in rec["id"] for m in ("::logical::binder::", "::logical::planner::", "::logical::resolver::")) or "::tests::" in rec["id"]:
            continue
        if "Enumerate" not in str(rec["bbs"]):
            continue
        fn = Fn(rec)
        len_cmp_blocks = []
        for b, i, pl, rv, ln in fn.assigns():
            if rv[0] == "bin" and rv[1] in ("Lt", "Le", "Gt", "Ge", "Eq", "Ne"):
                os_ = [fn.origin(x, at=b) if x[0] in ("c", "m") else None for x in (rv[2], rv[3])]
                if all(o and o[0] == "call" and o[1].name.endswith("::len") for o in os_):
                    len_cmp_blocks.append(b)
        for c in fn.calls():
            if not (c.decl.startswith("std::ops::Index") and len(c.args) >= 2):
                continue
            io = fn.origin(c.args[1], at=c.bb, through_calls=("::unwrap", "::branch"))
            if not (io[0] == "call" and "Enumerate" in io[1].name and io[1].name.endswith("::next")):
                continue
            r.functions.add(fn.id)
            r.call_sites += 1
            ok = any(fn.dominates(b, c.bb) and b != c.bb for b in len_cmp_blocks)
            r.inst({"fn": fn.id, "line": c.line, "lengths_compared_before": ok}, ok)
            if not ok:
                r.violate(fn.id, "enumerate-index-unchecked", f"the collection indexed at line {c.line} is addressed with the enumerate() position of another collection and no comparison "
                          "of the two lengths dominates it: more items than slots is an index-out-of-bounds panic on the session thread", rec["file"], c.line)
    return r


def run(ctx):
    facts = ctx["facts"]
    cg = CallGraph(facts)
    return [rule_unimpl(facts, cg), rule_depth(facts, cg), rule_restore(facts, cg), rule_enumidx(facts)]


CLAIM = {
    "text": "Whole-workspace call-graph rules: (a) panicking unimplemented!/todo! expansions (identified through macro expansion data in "
            "MIR) may only live in uncalled functions; (b) SCC analysis of the parser: each recursion cycle must contain a depth check. "
            "These are the statically visible ways a statement can abort the process regardless of data; general panic freedom "
            "depends on runtime values and is not claimed. (c) temporary SessionConfig overrides are restored on every exit of the async "
            "bind body (each `?` in the unrestored region examined), so a failed statement leaves the settings as they were. Plus: in binder/planner/resolver code, indexing a collection with the enumerate() position of another collection is dominated by a comparison of two lengths.",
    "note": "trusted: rustc MIR + span expansion data; class-hierarchy call graph (dyn/generic calls go to every impl); depth-check idiom = "
            "comparison of a *depth* field/local with a limit",
    "technique": "static analysis: call-graph reachability + SCC (recursion) rule over MIR facts (rustc_private driver)",
}
