"""C05 — scalar operators and functions follow their definition on all values (narrow clauses).
  C05-NULL  the vectorised executors (Unary/Binary/Ternary/Uniform scalar executors and the aggregate
            NonNull updaters) call the user operation only on rows where *every* input array is valid:
            each call of `op` is edge-dominated, for each validity input of the function, by the true edge
            of all_valid() or is_valid() on that validity; (NULL in ⇒ NULL out / row skipped)
  C05-PREC  operator precedence constants are strictly ordered as in the SQL/PostgreSQL table
Not decided: the value any function computes, three-valued logic truth tables."""
import re
from .framework import RuleResult
from .mir import Fn, controlling_calls, op_const

EXPLANATION = ("Dominance rule over the MIR of every executor format branch: the user closure runs only under validity of each input "
               "(siblings — Flat×Flat, selection, constant branches — are checked individually), and a constant-table rule over the parser's "
               "precedence constants. Both are necessary for scalar semantics (NULL propagation, expression grouping); computed values are not decided.")
NOT_DECIDED = ["the value each function computes", "the full three-valued truth tables (decided: AND/OR do not run on strict executors)", "context independence of evaluation"]

EXEC_MOD = "glaredb_core::arrays::executor::"


def rule_null(facts):
    r = RuleResult("C05-NULL", "`op` is invoked only where every input validity has been checked (all_valid / is_valid true edge)", floor=20)
    for rec in facts.fns_matching(lambda i: i.startswith(EXEC_MOD) and ("::scalar::" in i or "::aggregate::" in i)):
        fn = Fn(rec)
        # op call sites: FnMut::call_mut / FnOnce / Fn call whose callee is a generic parameter (closure param)
        sites = [c for c in fn.calls() if c.decl in ("std::ops::FnMut::call_mut", "std::ops::Fn::call", "std::ops::FnOnce::call_once")
                 or c.decl.endswith("AggregateState::update")]
        if not sites:
            continue
        # validity inputs of this function: parameters of type &Array / &Validity / &[Array] / closures capture them for Uniform
        val_params = []
        for l in range(1, fn.argc + 1):
            ty = fn.locals[l]
            if ty.endswith("arrays::array::Array") or ty.endswith("validity::Validity") or "[glaredb_core::arrays::array::Array]" in ty \
                    or re.search(r"&\[?&?glaredb_core::arrays::array::Array\]?$", ty):
                val_params.append(l)
        if not val_params:
            continue
        r.functions.add(fn.id)

        def validity_param(c):
            """which parameter the receiver of all_valid()/is_valid() belongs to"""
            if not c.args:
                return None
            o = fn.origin(c.args[0], through_calls=("::deref", "::index", "::get", "::unwrap", "::next", "::iter", "::into_iter", "::as_ref"), at=c.bb)
            if o[0] == "arg":
                return o[1]
            return None

        # values read from the input buffers (Addressable::get → unwrap / Some(..) / deref)
        from .mir import taint, operand_locals
        val_seeds = {c.dst[0] for c in fn.calls() if c.name.endswith("::get") and ("Addressable" in c.name or "Addressable" in c.decl)}
        from .mir import TRANSPARENT_CALLS
        TR = TRANSPARENT_CALLS + ("::deref", "::deref_mut", "::as_slice", "::as_ref")
        tainted_vals = taint(fn, val_seeds, transparent=TR)
        for _ in range(3):      # values collected into a Vec that is then handed to the operation (UniformExecutor)
            extra = set()
            for c in fn.calls():
                if c.name.endswith("Vec::<T, A>::push") and len(c.args) > 1 and (operand_locals(c.args[1:], set()) & tainted_vals):
                    o = fn.origin(c.args[0], at=c.bb)
                    if o[0] in ("local", "arg"):
                        extra.add(o[1])
                    elif o[0] == "call":
                        extra.add(o[1].dst[0])
            if extra <= tainted_vals:
                break
            tainted_vals = taint(fn, val_seeds | extra | tainted_vals, transparent=TR)
        for s in sites:
            if not (operand_locals(s.args[1:], set()) & tainted_vals):
                # the operation is told "no value" (None / index only): nothing read from a possibly-NULL slot
                r.inst({"fn": fn.id, "op_call_line": s.line, "passes_input_value": False})
                continue
            r.call_sites += 1
            ctl = controlling_calls(fn, s.bb)
            checked = set()
            how = []
            for c, truth in ctl:
                nm = c.name.rsplit("::", 1)[-1]
                if truth and c.name.endswith("Validity::all_valid") or (truth and c.name.endswith("Validity::is_valid")):
                    p = validity_param(c)
                    if p is not None:
                        checked.add(p)
                        how.append(f"{nm}(arg{p})")
                elif truth and (c.name.endswith("Iterator::all") or c.decl.endswith("Iterator::all")):
                    # `validities.iter().all(|v| v.is_valid(i))` — the closure must call is_valid / all_valid
                    for a in c.args[1:]:
                        oa = fn.origin(a, at=c.bb)
                        if oa[0] == "rv" and oa[1][0] == "agg" and oa[1][1][0] == "closure":
                            crec = facts.fn(oa[1][1][1])
                            if crec and ("Validity::is_valid" in str(crec["bbs"]) or "Validity::all_valid" in str(crec["bbs"])):
                                p = validity_param(c)
                                for vp in val_params:
                                    checked.add(vp)
                                how.append("all(|v| v.is_valid(..)) over the input list")
            missing = [p for p in val_params if p not in checked]
            ok = not missing
            r.inst({"fn": fn.id, "op_call_line": s.line, "validity_params": [fn.local_name(p) for p in val_params], "checked_by": sorted(set(how))}, ok)
            if not ok:
                r.violate(fn.id, "op-call", f"the operation is invoked on a path where the validity of {[fn.local_name(p) for p in missing]} was not checked: "
                          "a NULL input row is evaluated (garbage in the value buffer) instead of producing NULL / being skipped", rec["file"], s.line)
    return r


PREC_ORDER = ["PREC_OR", "PREC_AND", "PREC_NOT", "PREC_IS", "PREC_COMPARISON", "PREC_CONTAINMENT", "PREC_EVERYTHING_ELSE",
              "PREC_ADD_SUB", "PREC_MUL_DIV_MOD", "PREC_EXPONENTIATION", "PREC_UNARY_MINUS", "PREC_ARRAY_ELEM", "PREC_CAST"]


def rule_prec(facts):
    r = RuleResult("C05-PREC", "precedence constants strictly increase along OR < AND < NOT < IS < comparison < … < unary minus < [] < ::", floor=8)
    def ev(e):
        k = e.get("k")
        if k == "lit" and isinstance(e.get("v"), int):
            return e["v"]
        if k == "cast":
            return ev(e["e"])
        if k == "bin":
            a, b = ev(e["l"]), ev(e["r"])
            if a is None or b is None:
                return None
            return {"Add": a + b, "Sub": a - b, "Mul": a * b, "Div": a // b if b else None, "Shl": a << b, "BitOr": a | b}.get(e["op"])
        if k == "block" and not e.get("stmts") and e.get("e"):
            return ev(e["e"])
        return None
    vals = {}
    for c in facts.records("const", "glaredb_parser"):
        if c.get("name", "").startswith("PREC_"):
            v = ev(c["e"])
            if v is None:
                r.violate("glaredb_parser::ast::expr::Expr", c["name"], f"precedence constant {c['name']} is not a readable integer expression (failing closed)", c["file"], c["line"])
                continue
            vals[c["name"]] = (v, c["file"], c["line"])
    present = [n for n in PREC_ORDER if n in vals]
    unknown = sorted(set(vals) - set(PREC_ORDER))
    for n in PREC_ORDER:
        if n not in vals and not any(v.construct == n for v in r.violations):
            r.notes.append(f"{n} is not defined (not constrained)")
    if len(present) < 8:
        r.missing_anchor("PREC_* constants in glaredb_parser::ast::expr")
        return r
    for a, b in zip(present, present[1:]):
        ok = vals[a][0] < vals[b][0]
        r.inst({"lower": a, "value": vals[a][0], "higher": b, "value_higher": vals[b][0]}, ok)
        if not ok:
            r.violate("glaredb_parser::ast::expr::Expr", f"{a}<{b}", f"{a} = {vals[a][0]} is not lower than {b} = {vals[b][0]}: expressions mixing these operators "
                      "are grouped differently from SQL's precedence table", vals[b][1], vals[b][2])
    if unknown:
        r.notes.append(f"precedence constants not in the reference order table (not constrained): {unknown}")
    return r


VALIDITY_INDEXED = ("is_valid", "set_valid", "set_invalid")
SEL_THROUGH = ("::unwrap", "::expect", "::branch", "::unwrap_or", "::unwrap_unchecked", "::copied", "::cloned")


def rule_idxspace(facts):
    """An array has two index spaces: the logical row (what the validity mask and the selection are indexed by) and the physical
    slot of the buffer (what `selection.get(row)` returns; dictionary / constant / filtered arrays make them differ). A physical
    index used to probe or set validity reads the bit of another row whenever the array is not flat."""
    r = RuleResult("C05-IDXSPACE", "the row index given to Validity::is_valid/set_valid/set_invalid is never the result of Selection::get (a physical "
                   "buffer slot): validity is per logical row", floor=60)
    for rec in facts.all_fns(["glaredb_core", "glaredb_ext_parquet", "glaredb_ext_csv"], contains="Validity"):
        if "Validity" not in str(rec["bbs"]):
            continue
        fn = Fn(rec)
        for c in fn.calls():
            if "validity::Validity::" not in c.name or c.name.rsplit("::", 1)[-1] not in VALIDITY_INDEXED or len(c.args) < 2:
                continue
            r.functions.add(fn.id)
            r.call_sites += 1
            o = fn.origin(c.args[1], at=c.bb, through_calls=SEL_THROUGH)
            phys = o[0] == "call" and "selection::Selection" in o[1].name and o[1].name.endswith("::get")
            r.inst({"fn": fn.id, "line": c.line, "call": c.name.rsplit("::", 1)[-1], "index_from": (o[1].name.rsplit("::", 2)[-2:] if o[0] == "call" else o[0])}, not phys)
            if phys:
                r.violate(fn.id, f"physical-index-into-validity:{c.name.rsplit('::', 1)[-1]}",
                          f"`{c.name.rsplit('::', 1)[-1]}` at line {c.line} is given the slot returned by Selection::get (line {o[1].line}); the validity mask is indexed by "
                          "the logical row, so for dictionary / constant / filtered arrays the NULL-ness of a different row is used", rec["file"], c.line)
    return r


NON_STRICT_SETS = ("FUNCTION_SET_AND", "FUNCTION_SET_OR")


def rule_3vl(facts):
    """C05-NULL makes the generic scalar executors *strict*: a NULL in any input gives a NULL out and the operation is not called.
    AND / OR are not strict (NULL OR TRUE = TRUE, NULL AND FALSE = FALSE), so a kernel of theirs that runs on a strict executor is
    wrong by construction, for every input with a NULL next to a deciding value. Who-may-call over the instantiated kernels of the
    two registry rows."""
    from .c18 import executor_calls
    from .instwalk import InstDB
    r = RuleResult("C05-3VL", "the kernels of the non-strict operators AND / OR never run on the NULL-propagating scalar executors", floor=2)
    db = InstDB(facts)
    rows = [x for x in facts.records("row", "glaredb_core") if x["const"].rsplit("::", 1)[-1] in NON_STRICT_SETS and "RawScalarFunction" in x["ctor"]]
    for row in rows:
        calls = executor_calls(db, row)
        name = row["const"].rsplit("::", 1)[-1]
        r.call_sites += len(calls)
        r.inst({"row": f"{name}#{row['ord']}", "strict_executor_calls": sorted({c[0] for c in calls})}, not calls)
        for ex, ins, outst, line, file in calls[:1]:
            r.violate(row["const"], f"strict-executor:{name}", f"`{name}` is evaluated with {ex} (line {line}), which writes NULL whenever any input is NULL: "
                      "NULL OR TRUE yields NULL instead of TRUE, NULL AND FALSE yields NULL instead of FALSE, and WHERE drops rows whose predicate is true",
                      file, line)
    if len(rows) < 2:
        r.missing_anchor("registry rows FUNCTION_SET_AND / FUNCTION_SET_OR")
    return r


def rule_floordiv(facts):
    """`(x / d) * d` truncates toward zero. For timestamps (signed, negative before 1970) flooring to a unit has to round toward negative
    infinity: date_trunc('day', <1969-12-31 23:59:59>) must be 1969-12-31, not 1970-01-01. In the datetime functions a product whose factor
    is a signed quotient by the same divisor is rejected (div_euclid is the flooring form)."""
    r = RuleResult("C05-FLOORDIV", "datetime functions never floor a signed value with `(x / d) * d` (truncation toward zero)", floor=0)
    n = 0
    for rec in facts.all_fns(["glaredb_core"], contains="::datetime::"):
        if "::datetime::" not in rec["id"] or "::tests::" in rec["id"]:
            continue
        n += 1
        fn = Fn(rec)
        for b, i, pl, rv, ln in fn.assigns():
            if rv[0] == "bin" and rv[1].startswith("Mul") and rv[4] in ("i8", "i16", "i32", "i64", "i128"):
                for q, d in ((rv[2], rv[3]), (rv[3], rv[2])):
                    if q[0] not in ("c", "m"):
                        continue
                    o = fn.origin(q, at=b)
                    if o[0] == "rv" and o[1][0] == "bin" and o[1][1].startswith("Div"):
                        d1 = fn.origin(o[1][3], at=b) if o[1][3][0] in ("c", "m") else ("k", str(o[1][3]))
                        d2 = fn.origin(d, at=b) if d[0] in ("c", "m") else ("k", str(d))
                        if d1[:2] == d2[:2]:
                            r.functions.add(fn.id)
                            r.inst({"fn": fn.id, "line": ln}, False)
                            r.violate(fn.id, "truncating-floor", f"`(x / d) * d` at line {ln} floors a signed value by truncation toward zero: values before the epoch are rounded up",
                                      rec["file"], ln)
    r.notes.append(f"{n} datetime functions scanned")
    if n < 5:
        r.missing_anchor("datetime function bodies")
    return r


def _cselazy(facts):
    from .c02 import rule_cselazy
    return rule_cselazy(facts, rule="C05-CSELAZY")


def run(ctx):
    facts = ctx["facts"]
    return [rule_null(facts), rule_prec(facts), rule_idxspace(facts), rule_3vl(facts), rule_floordiv(facts), _cselazy(facts)]


CLAIM = {
    "text": "MIR edge-dominance rule over every call of the user operation in the scalar executors and aggregate updaters (each format "
            "branch separately) — NULL inputs never reach an operation — and an ordering rule over the parser's precedence constants. These "
            "hold for all inputs by code shape; what each function computes is a value-level question outside static reach. Plus an index-space rule over every Validity::is_valid/set_valid/set_invalid call in the engine and readers: the row index never originates from Selection::get (validity is per logical row; physical slots differ for dictionary, constant and filtered arrays). Plus: the kernels of the non-strict operators AND / OR never run on the NULL-propagating executors (three-valued logic cannot be produced by a strict executor)."
            " Plus FLOORDIV: the datetime functions never floor a signed value with (x / d) * d."
            " Plus CSELAZY (shared with C02): the value of a CASE does not depend on whether CSE fired - CSE never hoists conditionally evaluated operands.",
    "note": "trusted: rustc MIR; validity inputs are identified from parameter types (&Array, &Validity, &[Array]); reference precedence order in rules/c05.py",
    "technique": "static analysis: MIR edge-dominance (sibling branches) + const-table ordering (rustc_private driver)",
}
