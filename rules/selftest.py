"""Checker self-test (thorough tier): every patch under /verif/mutants/<PROP>/ breaks exactly one
rule instance while still compiling. It is applied to a scratch worktree of /repo outside /repo and
/verif, the property's check is run against that copy, and the expected rule must fire. The scratch
copy is removed afterwards. A stale patch (no longer applies to the current tree) is skipped and
reported, never counted as a failure of the repository."""
import os, re, shutil, subprocess, tempfile

VERIF = os.path.dirname(os.path.dirname(os.path.abspath(__file__)))
REPO = os.environ.get("VERIF_REPO", "/repo")


def run_mutants(prop, only=None):
    d = os.path.join(VERIF, "mutants", prop)
    out = {"mutants": [], "broken": [], "skipped": []}
    if not os.path.isdir(d) or os.environ.get("VERIF_NO_SELFTEST"):
        return out
    for f in sorted(os.listdir(d)):
        if not f.endswith(".diff"):
            continue
        name = f[:-5]
        if only and name not in only:
            continue
        expect = open(os.path.join(d, name + ".expect")).read().split()
        w = tempfile.mkdtemp(prefix="vwst.", dir="/tmp")
        os.rmdir(w)
        try:
            # copy of the *current working tree* (tracked files at HEAD + local modifications)
            # `git stash create` names the working tree (HEAD + tracked modifications) as one commit object without touching the
            # repository, so HEAD moving between two commands cannot produce a mixed copy
            snap = subprocess.run(["git", "-C", REPO, "stash", "create"], capture_output=True, text=True).stdout.strip() or "HEAD"
            subprocess.check_call(["git", "-C", REPO, "worktree", "add", "-q", "--detach", w, snap],
                                  stdout=subprocess.DEVNULL, stderr=subprocess.DEVNULL)
            ap = subprocess.run(["git", "-C", w, "apply", os.path.join(d, f)], capture_output=True, text=True)
            if ap.returncode != 0:
                out["skipped"].append({"mutant": name, "reason": "patch no longer applies to the current tree"})
                continue
            env = dict(os.environ, VERIF_REPO=w, VERIF_EVIDENCE_DIR=os.path.join(w, ".ev"), VERIF_REPLAY_DIR=os.path.join(w, ".rp"),
                       VERIF_FACTS_SUB="vfacts", VERIF_NO_SELFTEST="1")
            r = subprocess.run([os.path.join(VERIF, "check"), prop, "--tier", "quick"], env=env, capture_output=True, text=True)
            fired = set(re.findall(r"\[(C\d\d-[A-Z0-9-]+)\]", r.stdout))
            if "fact extraction failed" in r.stdout:
                out["skipped"].append({"mutant": name, "reason": "variant does not compile on the current tree"})
                continue
            ok = r.returncode == 1 and any(e in fired for e in expect)
            out["mutants"].append({"mutant": name, "expected_rule": expect, "fired": sorted(fired), "detected": ok})
            if not ok:
                tail = ""
                if "VIOLATION" not in r.stdout and r.returncode != 0:
                    # the check itself fell over on the variant (not a verdict): say why
                    tail = " check-error: " + " | ".join((r.stderr or r.stdout).strip().splitlines()[-3:])[:400]
                out["broken"].append(f"mutant {prop}/{name} (expects {expect}) was not detected; fired={sorted(fired)} exit={r.returncode}{tail}")
        finally:
            subprocess.call(["git", "-C", REPO, "worktree", "remove", "--force", w], stdout=subprocess.DEVNULL, stderr=subprocess.DEVNULL)
            shutil.rmtree(w, ignore_errors=True)
    return out
