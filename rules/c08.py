"""C08 — ORDER BY yields a correctly sorted permutation (narrow clause).
Decided: sibling agreement / constant rules of the comparable (memcmp-able) key encoding in
arrays/sort/sort_layout.rs, which the whole sort relies on:
  ENC-FLOAT   every arithmetic (signed) right shift used to spread the sign bit of a float's
              reinterpreted bits shifts by BITS-1 of that integer
  ENC-INT     signed ints: big-endian bytes with exactly the sign bit (0x80 of byte 0) flipped;
              unsigned ints: plain big-endian bytes
  ENC-BOOL    constant stored for `true` is greater than the one stored for `false`
  NULLBYTE    nulls_first: invalid byte < valid byte; nulls last: invalid byte > valid byte
  INVERT      on the valid path of every key writer the encoded value passes invert_if_desc
Not decided: merge/heap correctness, tie-breaking, LIMIT/OFFSET slicing (values)."""
import re
from .framework import RuleResult
from .mir import Fn, op_const, switch_edges
from .c07 import float_canon

EXPLANATION = ("Decides constant/sibling-agreement rules of the comparable sort-key encoding "
               "(ComparableEncode impls, null bytes, DESC inversion) on MIR of every impl; these are necessary "
               "conditions for ORDER BY to produce a sorted permutation. The ordering of actual rows is not decided.")
NOT_DECIDED = ["k-way merge and heap ordering (only the index-space discipline of SortLayout accesses is decided, C08-IDXSPACE)", "prefix tie-breaking through heap copies", "LIMIT/OFFSET slice arithmetic"]

TRAIT = "glaredb_core::arrays::sort::sort_layout::ComparableEncode"
BITS = {"i8": 8, "i16": 16, "i32": 32, "i64": 64, "i128": 128}


def _impls(facts):
    fns = facts.fns_matching(lambda i: i.endswith("::encode") and f" as {TRAIT}>" in i)
    return [Fn(r) for r in fns]


def _consts_written_in(fn, blocks):
    """integer constants assigned (to any place) in the given blocks"""
    out = []
    for b in blocks:
        for s in fn.bbs[b]["s"]:
            if s[0] == "a" and s[2][0] == "use":
                c = op_const(s[2][1])
                if c and c.get("k") == "int" and s[1][1]:
                    out.append((c["v"], s[3]))
    return out


def run(ctx):
    facts = ctx["facts"]
    res = []
    impls = _impls(facts)

    # ---------------- ENC-FLOAT
    r = RuleResult("C08-ENC-FLOAT", "signed right shift spreading a float's sign bit shifts by BITS-1", floor=3)
    for fn in impls:
        st = fn.rec.get("self_ty", "")
        if st not in ("f32", "f64", "half::f16", "half::binary16::f16"):
            continue
        r.functions.add(fn.id)
        for b, i, pl, rv, ln in fn.assigns():
            if rv[0] == "bin" and rv[1] in ("Shr", "ShrUnchecked") and rv[4] in BITS:
                c = op_const(rv[3])
                want = BITS[rv[4]] - 1
                ok = bool(c) and c.get("k") == "int" and c["v"] == want
                r.inst({"fn": fn.id, "shift_of": rv[4], "by": c.get("v") if c else "non-constant", "want": want}, ok)
                if not ok:
                    r.violate(fn.id, f"Shr:{rv[4]}", f"arithmetic shift of the reinterpreted float bits ({rv[4]}) is by "
                              f"{c.get('v') if c else '?'}; must be {want} (BITS-1) for the encoding to be order-preserving",
                              fn.rec["file"], ln)
    res.append(r)

    # ---------------- ENC-INT
    r = RuleResult("C08-ENC-INT", "integers encode as big-endian bytes, signed with exactly bit 7 of byte 0 flipped", floor=10)
    for fn in impls:
        st = fn.rec.get("self_ty", "")
        if not re.fullmatch(r"[iu](8|16|32|64|128)", st):
            continue
        r.functions.add(fn.id)
        signed = st.startswith("i")
        be = [c for c in fn.calls() if c.name.endswith("::to_be_bytes")]
        other = [c for c in fn.calls() if c.name.endswith("::to_le_bytes") or c.name.endswith("::to_ne_bytes")]
        xors = []
        for b, i, pl, rv, ln in fn.assigns():
            if rv[0] == "bin" and rv[1] == "BitXor":
                c = op_const(rv[3]) or op_const(rv[2])
                idx = None
                for p in pl[1]:
                    if isinstance(p, list) and p[0] == "ci":
                        idx = p[1]
                    elif isinstance(p, list) and p[0] == "i":
                        o = fn.origin(p[1])
                        if o[0] == "const" and o[1].get("k") == "int":
                            idx = o[1]["v"]
                xors.append((c.get("v") if c else None, idx, ln))
        ok = bool(be) and not other
        why = ""
        if not ok:
            why = "does not take big-endian bytes (to_be_bytes)"
        if signed:
            if not (len(xors) == 1 and xors[0][0] == 128 and xors[0][1] == 0):
                ok = False
                why = why or f"sign flip is {xors} — expected exactly one `byte[0] ^= 0x80`"
        else:
            if xors:
                ok = False
                why = why or "unsigned encoding must not flip bits"
        r.inst({"fn": fn.id, "be_bytes": len(be), "xor": xors}, ok)
        if not ok:
            r.violate(fn.id, "int-encoding", why, fn.rec["file"], fn.rec["line"])
    res.append(r)

    # ---------------- ENC-BOOL
    r = RuleResult("C08-ENC-BOOL", "bool key byte: constant for true > constant for false", floor=1)
    for fn in impls:
        if fn.rec.get("self_ty") != "bool":
            continue
        r.functions.add(fn.id)
        found = False
        for b in range(fn.n):
            t = fn.term(b)
            if t[0] != "switch" or t[4] != "bool":
                continue
            edges = switch_edges(t)
            fb = [tb for v, tb in edges if v == 0]
            tb_ = [tb for v, tb in edges if v != 0]
            if not fb or not tb_:
                continue
            # blocks exclusively reached through each edge
            f_only = fn.reachable_from(fb[0]) - fn.reachable_from(tb_[0])
            t_only = fn.reachable_from(tb_[0]) - fn.reachable_from(fb[0])
            cf = _consts_written_in(fn, f_only)
            ct = _consts_written_in(fn, t_only)
            if len(cf) == 1 and len(ct) == 1:
                found = True
                ok = ct[0][0] > cf[0][0]
                r.inst({"fn": fn.id, "true_byte": ct[0][0], "false_byte": cf[0][0]}, ok)
                if not ok:
                    r.violate(fn.id, "bool-bytes", f"true encodes as {ct[0][0]} and false as {cf[0][0]}: ORDER BY sorts true before "
                              f"false although the comparison operators order false < true", fn.rec["file"], ct[0][1])
        if not found:
            r.notes.append("bool impl does not use the two-constant idiom; rule not applicable to its current shape")
            r.inst({"fn": fn.id, "idiom": "absent"})
    res.append(r)

    # ---------------- NULLBYTE
    r = RuleResult("C08-NULLBYTE", "null/valid marker bytes ordered consistently with nulls_first", floor=1)
    vals = {}
    for nm in ("valid_byte", "invalid_byte"):
        rec = facts.fn(f"glaredb_core::arrays::sort::sort_layout::SortColumn::{nm}")
        if rec is None:
            cands = facts.fns_matching(lambda i: i.startswith("glaredb_core::arrays::sort::sort_layout::") and i.endswith("::" + nm))
            rec = cands[0] if cands else None
        if rec is None:
            r.missing_anchor(f"sort_layout::*::{nm}")
            continue
        fn = Fn(rec)
        r.functions.add(fn.id)
        for b in range(fn.n):
            t = fn.term(b)
            if t[0] == "switch" and t[4] == "bool":
                pl = t[1][1] if t[1][0] in ("c", "m") else None
                org = fn.origin(t[1])
                flds = [p[1] for p in (org[2] if len(org) > 2 else []) if isinstance(p, list) and p[0] == "f"]
                if "nulls_first" not in flds:
                    continue
                edges = switch_edges(t)
                fb = [tb for v, tb in edges if v == 0][0]
                tb_ = [tb for v, tb in edges if v != 0][0]
                def ret_const(start, other):
                    out = []
                    for bb in fn.reachable_from(start) - fn.reachable_from(other):
                        for s in fn.bbs[bb]["s"]:
                            if s[0] == "a" and s[1] == [0, []] and s[2][0] == "use":
                                c = op_const(s[2][1])
                                if c and c.get("k") == "int":
                                    out.append(c["v"])
                    return out
                vals[nm] = (ret_const(tb_, fb), ret_const(fb, tb_), rec)
    if len(vals) == 2:
        (vt, vf, rec), (it, if_, _) = vals["valid_byte"], vals["invalid_byte"]
        if len(vt) == len(vf) == len(it) == len(if_) == 1:
            ok1 = it[0] < vt[0]
            ok2 = if_[0] > vf[0]
            r.inst({"nulls_first": {"invalid": it[0], "valid": vt[0]}}, ok1)
            r.inst({"nulls_last": {"invalid": if_[0], "valid": vf[0]}}, ok2)
            if not ok1:
                r.violate(rec["id"], "nulls_first-bytes", f"with NULLS FIRST the invalid marker {it[0]} must sort before the valid marker {vt[0]}", rec["file"], rec["line"])
            if not ok2:
                r.violate(rec["id"], "nulls_last-bytes", f"with NULLS LAST the invalid marker {if_[0]} must sort after the valid marker {vf[0]}", rec["file"], rec["line"])
        else:
            r.notes.append("marker functions do not return one constant per nulls_first branch; rule not applicable to this shape")
            r.inst({"idiom": "absent"})
    res.append(r)

    # ---------------- INVERT
    r = RuleResult("C08-INVERT", "valid-path key bytes pass invert_if_desc in every key writer", floor=2)
    writers = facts.fns_matching(lambda i: i.startswith("glaredb_core::arrays::sort::sort_layout::") and not i.startswith("<"))
    for rec in writers:
        fn = Fn(rec)
        enc = [c for c in fn.calls() if c.decl == TRAIT + "::encode" or c.name.endswith(" as " + TRAIT + ">::encode")]
        if not enc:
            continue
        r.functions.add(fn.id)
        # is_valid switch
        for c in fn.calls():
            if not c.name.endswith("Validity::is_valid"):
                continue
            r.call_sites += 1
            dl = c.dst[0]
            sw = None
            for b in fn.reachable_from(c.target):
                t = fn.term(b)
                if t[0] == "switch" and t[1][0] in ("c", "m") and t[1][1][0] == dl:
                    sw = (b, t)
                    break
            if not sw:
                continue
            edges = switch_edges(sw[1])
            tb_ = [tb for v, tb in edges if v != 0][0]
            fb = [tb for v, tb in edges if v == 0][0]
            # every path from the valid edge to (loop header | exit) must call invert_if_desc
            inv_blocks = {x.bb for x in fn.calls() if x.name.endswith("::invert_if_desc")}
            stop = set(fn.dom[sw[0]])  # loop headers dominate the switch; reaching one = next iteration
            seen, st, bad = set(), [tb_], None
            while st:
                b = st.pop()
                if b in seen:
                    continue
                seen.add(b)
                if b in inv_blocks:
                    continue
                if fn.term(b)[0] == "ret" or (b in stop and b != tb_):
                    bad = b
                    break
                st.extend(fn.succ[b])
            enc_on_valid = [e for e in enc if e.bb in fn.reachable_from(tb_, avoid=stop - {tb_}) and e.bb not in fn.reachable_from(fb, avoid=stop)]
            ok = bad is None
            r.inst({"fn": fn.id, "valid_edge_bb": tb_, "encode_calls_on_valid_path": len(enc_on_valid)}, ok)
            if not ok:
                r.violate(fn.id, "invert_if_desc", "a path from the valid branch reaches the next row / return without calling "
                          "invert_if_desc: DESC keys would sort ascending", rec["file"], c.line)
    res.append(r)

    # ---------------- IDXSPACE
    res.append(rule_idxspace(facts))
    res.append(rule_ties(facts))
    res.append(float_canon(facts, "C08-KEYCANON", "the float sort-key encoding canonicalises NaN and the sign of zero before taking the bits",
                           lambda i: i.endswith("sort_layout::ComparableEncode>::encode") and i.split(" as ")[0].lstrip("<") in ("f32", "f64", "half::f16", "half::binary16::f16"),
                           ("to_bits",), True,
                           "the sort key is the total-order transform of the raw bits: a NaN with the sign bit set (what 0.0/0.0 produces on x86) sorts before -inf while "
                           "'NaN' sorts after +inf, and -0.0 sorts strictly before 0.0 although they are equal, which breaks the order of the following keys"))
    res.append(rule_tiesadj(facts))
    res.append(rule_orderalias(facts))
    return res


SL = "glaredb_core::arrays::sort::sort_layout::SortLayout"
KEY_SPACE = {"columns", "column_widths", "offsets", "heap_mapping"}     # Vecs of SortLayout indexed by sort-key position
UNWRAPS = ("Option::<T>::expect", "Option::<T>::unwrap", "Option::<T>::unwrap_unchecked")


def _fieldpath(proj):
    return [(p[1], p[2].rsplit("::", 1)[-1]) for p in proj if isinstance(p, list) and p[0] == "f" and len(p) > 2]


def _space_of(fp):
    """'key' / 'heap' / None for a field path of an indexed base"""
    for i, (name, owner) in enumerate(fp):
        if owner == "SortLayout":
            if name in KEY_SPACE:
                return "key", name
            if name == "heap_layout" and i + 1 < len(fp):
                return "heap", "heap_layout." + fp[i + 1][0]
    return None, None


def _index_root(facts, fn, op, at, depth=0):
    """root of an index operand: ('heapmap',) when it is the payload of SortLayout::heap_mapping[..], otherwise a hashable
    description of the root local/arg (closure captures are followed into the creating function)"""
    o = fn.origin(op, at=at, through_calls=UNWRAPS)
    if o[0] == "call":
        c = o[1]
        if c.decl.startswith("std::ops::Index") and c.args and c.args[0][0] in ("c", "m"):
            bo = fn.origin(c.args[0], at=c.bb)
            if len(bo) > 2 and _space_of(_fieldpath(bo[2]))[1] == "heap_mapping":
                return ("heapmap",)
        return ("call", fn.id, c.bb)
    if o[0] == "arg" and "{closure" in fn.id and o[1] == 1 and depth < 3:
        # captured variable: field N of the closure environment → operand N of the closure aggregate in the parent
        fld = [p for p in o[2] if isinstance(p, list) and p[0] == "f" and p[1].isdigit()]
        parent_id = fn.id.rsplit("::{closure", 1)[0]
        precs = facts.fns_matching(lambda i: i == parent_id)
        if fld and precs:
            from .mir import Fn as _Fn
            pf = _Fn(precs[0])
            for b, i, pl, rv, ln in pf.assigns():
                if rv[0] == "agg" and rv[1][0] == "closure" and rv[1][1] == fn.id:
                    n = int(fld[0][1])
                    if n < len(rv[2]):
                        return _index_root(facts, pf, rv[2][n], b, depth + 1)
    if o[0] in ("arg", "local"):
        return (o[0], fn.id, o[1])
    return ("other", fn.id, str(o[0]))


def rule_idxspace(facts, rule="C08-IDXSPACE", only=None, floor=16):
    """SortLayout keeps two index spaces: sort-key positions (columns/column_widths/offsets/heap_mapping) and positions in the
    heap row layout (heap_layout.*), related only through heap_mapping[key] = Some(heap). The ASC/DESC flag, key width and key
    offset of a key must be read with the key position; the heap offset/type with the mapped heap position."""
    r = RuleResult(rule, "no index value is used in both the sort-key and the heap-layout index space of SortLayout; "
                   "a heap_mapping payload never indexes a key-space vector", floor=floor)
    sites = []
    for rec in facts.all_fns(["glaredb_core"], contains=SL):
        if rec.get("krate") != "glaredb_core" or SL not in str(rec["bbs"]):
            continue
        if only and not only(rec["id"]):
            continue
        fn = Fn(rec)
        for c in fn.calls():
            if not (c.decl.startswith("std::ops::Index") or c.name.endswith("::get") or c.name.endswith("::get_unchecked")
                    or c.name.endswith("::get_mut")):
                continue
            if len(c.args) < 2 or c.args[0][0] not in ("c", "m"):
                continue
            bo = fn.origin(c.args[0], at=c.bb)
            if len(bo) < 3 or not isinstance(bo[2], list):
                continue
            space, field = _space_of(_fieldpath(bo[2]))
            if not space:
                continue
            r.functions.add(fn.id)
            r.call_sites += 1
            root = _index_root(facts, fn, c.args[1], c.bb)
            sites.append((fn, rec, c, space, field, root))
    # group closures with their parent function
    def grp(fid):
        return fid.split("::{closure", 1)[0]
    by_root = {}
    for fn, rec, c, space, field, root in sites:
        if root[0] in ("arg", "local"):
            by_root.setdefault((grp(root[1]), root[1], root[2]), set()).add(space)
    for fn, rec, c, space, field, root in sites:
        bad = None
        if space == "key" and root == ("heapmap",):
            bad = f"SortLayout::{field} is indexed by sort-key position but the index is a heap-layout position (payload of heap_mapping)"
        elif space == "heap" and root[0] in ("arg", "local") and len(by_root.get((grp(root[1]), root[1], root[2]), ())) > 1:
            # reported at the heap-space use: key positions are parameters everywhere, heap positions come from heap_mapping
            bad = (f"the same index value is used both for a sort-key vector and for a heap-layout vector of SortLayout "
                   f"(here: {field}); heap positions are obtained only through heap_mapping")
        r.inst({"fn": fn.id, "field": field, "space": space, "index_root": root[0]}, bad is None)
        if bad:
            r.violate(fn.id, f"index:{field}", bad + " — ASC/DESC flag, widths or heap offsets of a different column would be used", rec["file"], c.line)
    return r


def rule_ties(facts):
    """Multi-column / string sorts proceed column by column; `tied_with_next[i]` says rows i and i+1 are still equal on the columns
    compared so far. The sort may stop early only when no relevant tie is left. The flags examined by that exit test must cover
    every pair that involves a row that is kept: the whole vector, or a prefix whose length is not smaller than the number of rows
    kept (pair i needs flag i, so n kept rows need n flags - the pair formed with the first dropped row decides who is kept)."""
    r = RuleResult("C08-TIES", "the early exit of the column-by-column sort tests every tie flag that involves a kept row (whole vector, or a prefix "
                   "not shortened by subtraction)", floor=2)
    for rec in facts.all_fns(["glaredb_core"], contains="::arrays::sort::"):
        if "::arrays::sort::" not in rec["id"] or "::tests::" in rec["id"]:
            continue
        fn = Fn(rec)
        for c in fn.calls():
            if not (c.name.endswith("as std::iter::Iterator>::all") and (c.gargs or [""])[0] == "bool" and "slice::Iter" in c.name):
                continue
            r.functions.add(fn.id)
            r.call_sites += 1
            # iterator ← [bool]::iter(slice) ← slice
            o = fn.origin(c.args[0], at=c.bb)
            verdict, how = True, "whole vector"
            if o[0] == "call" and o[1].name.endswith("::iter"):
                it = o[1]
                so = fn.origin(it.args[0], at=it.bb, through_calls=("::deref", "::as_slice"))
                if so[0] == "call" and (so[1].decl.startswith("std::ops::Index") or so[1].name.endswith("::index") or "get" in so[1].name.rsplit("::", 1)[-1]):
                    ix = so[1]
                    how = "prefix/sub-range"
                    # range bound operands
                    ro = fn.origin(ix.args[1], at=ix.bb) if len(ix.args) > 1 else None
                    bounds = []
                    if ro and ro[0] == "rv" and ro[1][0] == "agg":
                        bounds = [x for x in ro[1][2]]
                    shortened = False
                    for bnd in bounds:
                        bo = fn.origin(bnd, at=ix.bb, through_calls=("::unwrap", "::unwrap_or", "::expect"))
                        if bo[0] == "call" and any(k in bo[1].name for k in ("saturating_sub", "checked_sub", "wrapping_sub", "::sub")):
                            shortened = True
                        if bo[0] == "rv" and bo[1][0] == "bin" and bo[1][1].startswith("Sub"):
                            shortened = True
                        if bo[0] == "local" or (bo[0] == "rv" and len(bo) > 2 and bo[2] and bo[1][0] == "bin"):
                            # `.0` of a checked subtraction tuple
                            for d in fn.defs.get(bnd[1][0] if bnd[0] in ("c", "m") else -1, []):
                                if d[0] == "a" and d[3][0] == "use" and d[3][1][0] in ("c", "m"):
                                    src = d[3][1][1]
                                    for d2 in fn.defs.get(src[0], []):
                                        if d2[0] == "a" and d2[3][0] == "bin" and d2[3][1].startswith("Sub"):
                                            shortened = True
                    if not bounds or shortened:
                        verdict = False
                        how = "prefix shortened by a subtraction" if shortened else "sub-range with unreadable bounds"
            r.inst({"fn": fn.id, "line": c.line, "flags_tested": how}, verdict)
            if not verdict:
                r.violate(fn.id, "tie-exit-subrange", f"the early exit at line {c.line} tests only part of the tie flags ({how}): a tie between the last kept row and "
                          "the next one is never examined, so the sort stops with an unresolved group at the cut and an arbitrary member is kept", rec["file"], c.line)
    return r


CLAIM = {
    "text": "Sibling/constant agreement rules over every ComparableEncode impl and key writer (sign-spread shift = BITS-1, "
            "big-endian + sign-bit flip, false<true byte, null marker order, DESC inversion on the valid path), decided on MIR for all "
            "instances. Right level: ORDER BY correctness over all inputs reduces, for the encoding layer, to these finitely many "
            "constants; value-level sorting behaviour cannot be decided statically. Plus the index-space discipline of SortLayout in the "
            "sort/merge code (key positions vs heap-layout positions are never mixed). Plus the tie-resolution exit of the column-by-column block sort: the early exit tests every tie flag that involves a kept row (whole vector, or a prefix not shortened by subtraction)."
            " Plus KEYCANON: the float sort-key encoders canonicalise NaN and the sign of zero before taking the bits."
            " Plus KEYCANON (float keys canonicalise NaN / zero sign) and ORDERALIAS (a bare ORDER BY name resolves against output aliases before input columns).",
    "note": "trusted: rustc MIR; assumes the key comparison is bytewise memcmp over these encodings (read in sort code); does not decide merge/limit logic",
    "technique": "static analysis: MIR constant/sibling-agreement rules + must-pass-through (rustc_private driver)",
}


def rule_orderalias(facts):
    """A bare name in ORDER BY that is an output-column alias means the output column (SQL92 / PostgreSQL), even when an input column
    has the same name: `SELECT -a AS a .. ORDER BY a` sorts by -a. Resolving the input column first sorts by a value the user does not
    see. Decided on OrderByColumnBinder::bind_from_ident: a select-list alias lookup precedes (can reach) the default column binding."""
    r = RuleResult("C08-ORDERALIAS", "ORDER BY resolves a bare name against the select list's aliases before the input columns", floor=1)
    recs = facts.fns_matching(lambda i: "bind_modifier::OrderByColumnBinder" in i and i.endswith("::bind_from_ident"))
    if not recs:
        r.missing_anchor("OrderByColumnBinder::bind_from_ident")
        return r
    rec = recs[0]
    fn = Fn(rec)
    r.functions.add(fn.id)
    alias = [c for c in fn.calls() if "SelectList::column_by_user_alias" in c.name]
    default = [c for c in fn.calls() if "DefaultColumnBinder" in c.name and c.name.endswith("::bind_from_ident")]
    if not alias or not default:
        r.missing_anchor("bind_from_ident: alias lookup / default binding call")
        return r
    ok = any(d.bb in fn.reachable_from(a.bb) for a in alias for d in default)
    r.inst({"fn": fn.id, "alias_lookups": len(alias), "alias_before_input": ok}, ok)
    if not ok:
        r.violate(fn.id, "input-column-shadows-alias", "the input columns are consulted before the select list's aliases: `SELECT -a AS a .. ORDER BY a` orders by the "
                  "hidden input column", rec["file"], default[0].line)
    return r


def rule_tiesadj(facts):
    """Tie flags say "row i equals row i+1"; the later sort keys are only applied inside runs of flagged rows. The loops that recompute
    the flags after a sub-sort therefore compare *adjacent* rows: both operands of the comparison move with the loop. An operand that is
    fixed before the loop compares every row with the first row of the group and un-ties equal neighbours (rows that tie on a long string
    are then never ordered by the following keys). Decided in arrays::sort: for every comparison call inside a loop whose function writes
    the `ties` slice, each compared operand has a definition inside the loop."""
    r = RuleResult("C08-TIESADJ", "tie-flag loops compare adjacent rows: both compared operands are redefined inside the loop", floor=1)
    n = 0
    for rec in facts.all_fns(["glaredb_core"], contains="arrays::sort::"):
        if "arrays::sort::" not in rec["id"] or "::tests::" in rec["id"]:
            continue
        fn = Fn(rec)
        vars_ = {v.get("name"): v for v in (rec.get("vars") or []) if isinstance(v, dict)}
        if "ties" not in vars_ and "ties" not in str(rec.get("vars")):
            continue

        def in_loop(b):
            return any(b in fn.reachable_from(s_) for s_ in fn.succ[b])

        def variant(op, b, depth=0, seen=None):
            """does the operand have a definition inside the loop containing block b?"""
            seen = seen if seen is not None else set()
            if op[0] not in ("c", "m") or depth > 6:
                return False
            L = op[1][0]
            if L in seen:
                return False
            seen.add(L)
            for d in fn.defs.get(L, []):
                db = d[1]
                loopdef = in_loop(db) and b in fn.reachable_from(db) and db in fn.reachable_from(b)
                if d[0] in ("a", "pa") and d[3][0] in ("use", "cast") and len(fn.defs.get(L, [])) == 1:
                    # a plain copy made in the loop: look through it
                    src = d[3][1] if d[3][0] == "use" else d[3][2]
                    if isinstance(src, list) and src and src[0] in ("c", "m"):
                        if variant(src, b, depth + 1, seen):
                            return True
                        continue
                if loopdef:
                    return True
            return False
        for c in fn.calls():
            last = c.name.rsplit("::", 1)[-1]
            if not (last.startswith("compare") or last in ("cmp", "eq", "ne")) or not in_loop(c.bb) or len(c.args) < 2:
                continue
            if "compare_heap_values" not in c.name and "arrays::sort" not in c.name:
                continue
            n += 1
            fixed = [i for i, a in enumerate(c.args[:2]) if not variant(a, c.bb)]
            ok = not fixed
            r.functions.add(fn.id)
            r.call_sites += 1
            r.inst({"fn": fn.id, "line": c.line, "callee": last, "loop_invariant_operands": fixed}, ok)
            if not ok:
                r.violate(fn.id, f"fixed-operand:{last}", f"the comparison at line {c.line} inside the tie-flag loop has an operand that is never redefined in the loop: every row is "
                          "compared with the same row instead of its neighbour, equal neighbours lose their tie flag and later sort keys are not applied to them", rec["file"], c.line)
    if n == 0:
        r.missing_anchor("no comparison call inside a loop of a function that writes `ties` (arrays::sort)")
    return r
