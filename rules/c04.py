"""C04 — every schedule terminates with the same result; no wake-up is lost (main target).
Rules (all decided on MIR paths of the operator/runtime layer, no execution):
  C04-PEND    every construction of a `Pending` value (PollExecute/PollPush/PollPull/PollFinalize/PollMerge/
              task::Poll/StackControlFlow) outside compiler-generated coroutine bodies is dominated by a waker
              registration, or is a delegation of a callee's Pending (switch on the callee's result), or a conversion
  C04-PARK    a waker stored in a mutex-protected slot is stored in the same critical section in which the
              condition was read, and nothing re-acquires a lock between the store and returning Pending
  C04-NOTIFY  every write to monitor state (struct holding wakers + condition fields behind one Mutex) that can
              make a parked condition true wakes the parked slots before the guard is released (table driven)
  C04-STACK   ExecutionStack::pop_next re-pushes the popped instruction on every Pending path
  C04-SCHED   scheduler check-then-act sequences are atomic (one critical section); siblings agree
  C04-ERR     worker error → ErrorSink::set_error; set_error stores + wakes under one lock
  C04-LOCK    lock-order graph over lock classes (interprocedural, class hierarchy for Wake/dyn) is acyclic
Not decided: counter values, fairness, progress of external futures."""
import re
from .framework import RuleResult
import collections
from .mir import Fn, op_const, switch_edges, disc_switches, region_of_edges, adt_variants, lock_calls, lock_class, guard_of, is_lock_call
from .callgraph import CallGraph

EXPLANATION = ("Path rules over the MIR of the execution/runtime layer decide the wake-up protocol: Pending ⇒ waker registered (or "
               "delegated), park atomic with its condition, every condition write notifies under the same guard, the execution stack "
               "replays the pending instruction, scheduler transitions are atomic, errors are routed and wake the consumer, and the "
               "interprocedural lock-order graph is acyclic. These are necessary conditions for termination under every schedule; "
               "counter values and fairness are not decided.")
NOT_DECIDED = ["values of the partition counters (see C03)", "fairness / progress of external futures (tokio, reqwest)", "same result across schedules (values)"]

SCOPE_CRATES = ["glaredb_core", "glaredb_rt_native", "glaredb_wasm", "glaredb_ext_parquet", "glaredb_ext_csv", "glaredb_ext_iceberg",
                "glaredb_ext_delta", "glaredb_ext_tpch_gen", "glaredb_http", "glaredb_ext_spark"]
POLL_ADTS = ("PollExecute", "PollPush", "PollPull", "PollFinalize", "PollMerge", "std::task::Poll", "StackControlFlow")
WAKER_STORE = "glaredb_core::execution::operators::util::partition_wakers::PartitionWakers::store"


def _is_poll_adt(path):
    return any(path.endswith(p) for p in POLL_ADTS)


def _pending_discr(facts, cache={}):
    if not cache:
        cache["std::task::Poll"] = 1
        cache["core::task::Poll"] = 1
        for a in facts.records("adt"):
            if a["kind"] == "enum" and _is_poll_adt(a["id"]):
                for v in a["variants"]:
                    if v["name"] == "Pending":
                        cache[a["id"]] = v["discr"]
    return cache


def registration_events(fn):
    """blocks with a waker registration: (bb, kind, detail)"""
    ev = []
    for c in fn.calls():
        if c.name == WAKER_STORE:
            ev.append((c.bb, "PartitionWakers::store", c))
        elif c.name.endswith("task::Waker::wake_by_ref") or c.name.endswith("task::wake::Waker::wake_by_ref"):
            o = fn.origin(c.args[0]) if c.args else None
            ev.append((c.bb, "self-wake", c))
        elif c.name.endswith("Waker as std::clone::Clone>::clone") or c.name.endswith("task::wake::Waker as std::clone::Clone>::clone"):
            # the clone must end up stored in a place (field / vec element) — look for an assignment of Some(clone) to a projection
            dl = c.dst[0]
            stored = False
            for b, i, pl, rv, ln in fn.assigns():
                if rv[0] == "agg" and rv[1][0] == "adt" and rv[1][1] == "std::option::Option" and rv[1][2] == "Some":
                    if any(o[0] in ("c", "m") and o[1][0] == dl for o in rv[2]):
                        tmp = pl[0]
                        if pl[1]:
                            stored = True
                        else:
                            for b2, i2, pl2, rv2, ln2 in fn.assigns():
                                if pl2[1] and rv2[0] == "use" and rv2[1][0] in ("c", "m") and rv2[1][1][0] == tmp:
                                    stored = True
                            for c2 in fn.calls():
                                if any(a[0] in ("c", "m") and a[1][0] == tmp for a in c2.args) and re.search(r"::(push|push_back|insert|replace|store|register)", c2.name):
                                    stored = True
            for c2 in fn.calls():
                if any(a[0] in ("c", "m") and a[1][0] == dl for a in c2.args) and re.search(r"::(push|push_back|insert|replace|store|register|send)", c2.name):
                    stored = True
            if stored:
                ev.append((c.bb, "waker-clone-stored", c))
    return ev


def pending_sites(fn):
    out = []
    for b, i, pl, rv, ln in fn.assigns():
        if rv[0] == "agg" and rv[1][0] == "adt" and rv[1][2] == "Pending" and _is_poll_adt(rv[1][1]):
            out.append((b, rv[1][1], ln))
    return out


def delegation_edges(facts, fn):
    """switch edges that select the Pending variant of a Poll-like value produced by a call or passed as argument"""
    pd = _pending_discr(facts)
    out = []
    for sb, pl, t in disc_switches(fn):
        ty = fn.locals[pl[0]]
        base = None
        # type of the matched place: use the local's type when there is no field projection
        flds = [p for p in pl[1] if isinstance(p, list) and p[0] == "f"]
        if flds:
            continue
        tyn = ty.replace("&mut ", "").lstrip("&")
        adt = tyn.split("<", 1)[0]
        if adt not in pd:
            continue
        o = fn.origin(["c", [pl[0], []]])
        src = None
        if o[0] == "call":
            src = ("call", o[1].name, o[1].line)
        elif o[0] == "arg":
            src = ("arg", o[1])
        elif o[0] == "local":
            # a local assigned from calls on several paths
            ds = fn.defs.get(o[1], [])
            if ds and all(d[0] in ("call", "pcall") or (d[0] == "a" and d[3][0] == "use") for d in ds):
                calls = [d[2].name for d in ds if d[0] == "call"]
                if calls:
                    src = ("call", calls[0], 0)
        if src is None:
            continue
        for v, tgt in switch_edges(t):
            if v == pd[adt]:
                out.append((sb, tgt, src))
            elif v is None:
                # otherwise-edge stands for Pending when all other variants are listed explicitly
                listed = {x for x, _ in switch_edges(t) if x is not None}
                if pd[adt] not in listed:
                    out.append((sb, tgt, src))
    return out


def rule_pend(facts):
    r = RuleResult("C04-PEND", "Pending ⇒ a waker registration dominates it, or it forwards a callee's Pending", floor=40)
    for rec in facts.all_fns(SCOPE_CRATES):
        if rec.get("coroutine"):
            continue
        if "Pending" not in str(rec["bbs"]):
            continue
        fn = Fn(rec)
        sites = pending_sites(fn)
        if not sites:
            continue
        r.functions.add(fn.id)
        regs = registration_events(fn)
        delegs = delegation_edges(facts, fn)
        for b, adt, ln in sites:
            r.call_sites += 1
            kind = None
            for rb, k, c in regs:
                if fn.block_dominates_t(rb, b):
                    kind = f"registered ({k} at line {c.line})"
                    break
            if kind is None:
                for sb, tgt, src in delegs:
                    if fn.edge_dominates(sb, tgt, b) or tgt == b:
                        kind = f"delegates Pending of {src[1].rsplit('::', 2)[-2] + '::' + src[1].rsplit('::', 1)[-1] if src[0] == 'call' else 'its argument'}"
                        break
            ok = kind is not None
            r.inst({"fn": fn.id, "pending": adt.rsplit("::", 1)[-1], "line": ln, "how": kind or "UNREGISTERED"}, ok)
            if not ok:
                r.violate(fn.id, f"{adt.rsplit('::', 1)[-1]}::Pending", "returns Pending on a path with no waker registration (PartitionWakers::store, "
                          "`slot = Some(cx.waker().clone())`, self-wake) and not as the forwarded Pending of a callee: nothing will ever "
                          "re-schedule this partition (lost wake-up ⇒ the query hangs)", rec["file"], ln)
    return r


# ---------------------------------------------------------------- PARK / NOTIFY
from . import monitors as M

INIT_FN = re.compile(r"::(create_partition_\w+|prepare_for_partitions|new|try_new|create_operator_state)$")

# (struct suffix, field, event, function suffix) -> reason.  One named instance per row.
NOTIFY_EXEMPT = {
    ("merge_queue::MergeQueueInner", "runs", "extend", "MergeQueue::add_sorted_blocks"):
        "checked side condition: only caller chain is PhysicalGlobalSort::poll_finalize_execute, whose success exits return NeedsDrain, so the "
        "same partition re-enters poll_merge_next (C04-ADDBLOCKS verifies callers and the NeedsDrain exits)",
    ("merge_queue::MergeQueueInner", "remaining_collection_count", "dec_by_one", "MergeQueue::add_sorted_blocks"):
        "same checked side condition as runs.extend in add_sorted_blocks",
    ("merge_queue::MergeQueueInner", "runs", "pop_front", "MergeQueue::poll_merge_next#0"):
        "polarity: removing runs while running_merges is incremented in the same section cannot make `runs.len() >= 2` or is_complete() true",
    ("merge_queue::MergeQueueInner", "running_merges", "w", "MergeQueue::poll_merge_next#0"):
        "polarity: `running_merges += 1` in the first section (with the two pop_front) cannot complete the queue; the `-= 1` in the second section is checked normally",
    ("streaming::ResultStreamInner", "error", "take", "ResultStream as futures::Stream>::poll_next"):
        "consumer-side take: the only task parked on `error` is the caller of poll_next itself, which returns Ready(Err) here",
    ("create_table_as::OperatorStateInner", "creating", "w", "PhysicalCreateTableAs as glaredb_core::execution::operators::ExecuteOperator>::poll_execute"):
        "polarity: `creating = true` makes the park condition (creating && table.is_none()) true for others, it can never release a parked task; "
        "the section that sets `table` wakes all (checked by the rule on that write)",
}


# path exemptions: on these edges nobody can be parked on the field (state reachable only on the other edge);
# each row names one function + field and the configuration predicate that selects the edge.
_HA_FIN = "PhysicalHashAggregate as glaredb_core::execution::operators::ExecuteOperator>::poll_finalize_execute"
PATH_EXEMPT = [
    {"fn": _HA_FIN, "field": "remaining_normal", "slot": "pending_distinct_mergers",
     "edge": ("call-bool", "::is_empty", ("agg_selection", "distinct"), True),
     "reason": "no DISTINCT aggregates: the MergingDistinct state (which parks in pending_distinct_mergers) is entered only on the other edge of this test"},
    {"fn": _HA_FIN, "field": "remaining_normal", "slot": "pending_mergers",
     "edge": ("call-bool", "::is_empty", ("agg_selection", "distinct"), False),
     "reason": "with DISTINCT aggregates a task parks in pending_mergers on remaining_distinct_aggregators (the branch of the park condition selected by the same "
               "`distinct.is_empty()` test); remaining_normal is read there only when there are no DISTINCT aggregates"},
    {"fn": "PhysicalUngroupedAggregate as glaredb_core::execution::operators::ExecuteOperator>::poll_finalize_execute", "field": "remaining_normal",
     "edge": ("call-bool", "::is_empty", ("agg_selection", "distinct"), True),
     "reason": "no DISTINCT aggregates: the MergingDistinct state (the only state that parks on remaining_normal) is entered only on the other edge of this same test"},
    {"fn": "PhysicalNestedLoopJoin as glaredb_core::execution::operators::ExecuteOperator>::poll_finalize_execute", "field": "remaining_probe_inputs",
     "edge": ("variant-not-in", ("join_type",), "glaredb_core::logical::logical_join::JoinType", ("Left", "LeftSemi", "LeftAnti", "Full", "LeftMark")),
     "reason": "tasks park on remaining_probe_inputs only while `draining_left`, which is set only inside this same join-type match"},
]


def _exempt_edges(facts, fn, field, slot=None):
    out, why = set(), []
    for row in PATH_EXEMPT:
        if not fn.path.endswith(row["fn"]) or row["field"] != field or (row.get("slot") and row["slot"] != slot):
            continue
        spec = row["edge"]
        if spec[0] == "call-bool":
            for c in fn.calls():
                if not c.name.endswith(spec[1]) or not c.args:
                    continue
                o = fn.origin(c.args[0], at=c.bb)
                flds = tuple(p[1] for p in (o[2] if len(o) > 2 and isinstance(o[2], list) else []) if isinstance(p, list) and p[0] == "f")
                if o[0] == "arg" and o[1] == 1 and flds == spec[2]:
                    dl = c.dst[0]
                    for b in fn.reach(c.target) if c.target is not None else []:
                        t = fn.term(b)
                        if t[0] == "switch" and t[1][0] in ("c", "m") and t[1][1] == [dl, []]:
                            for v, tgt in switch_edges(t):
                                if (v != 0) == spec[3]:
                                    out.add((b, tgt))
                            why.append(row["reason"])
                            break
        elif spec[0] == "variant-not-in":
            vs = adt_variants(facts, spec[2]) or {}
            allowed = {vs[n] for n in spec[3] if n in vs}
            for sb, pl, t in disc_switches(fn):
                o = fn.origin(["c", [pl[0], []]], at=sb)
                flds = tuple(p[1] for p in list(o[2] if len(o) > 2 and isinstance(o[2], list) else []) + list(pl[1]) if isinstance(p, list) and p[0] == "f")
                if flds == spec[1]:
                    listed = {v for v, _ in switch_edges(t) if v is not None}
                    for v, tgt in switch_edges(t):
                        if v is None:
                            if allowed <= listed:       # otherwise-edge = every variant outside the allowed set
                                out.add((sb, tgt))
                        elif v not in allowed:
                            out.add((sb, tgt))
                    why.append(row["reason"])
    return out, why


def _park_polarity(fn, e, park_bb):
    """abstract value of the condition under which the park block is reached: 'true'/'false' (bool field read) or
    'Some'/'None' (is_some()/is_none() on an Option field); None when unknown"""
    if e.kind == "r" and isinstance(e.value, list) and not e.value[1]:
        src = e.value[0]
        names = ("false", "true")
    elif e.kind == "call" and e.method in ("is_some", "is_none") and e.call is not None and not e.call.dst[1]:
        src = e.call.dst[0]
        names = ("None", "Some") if e.method == "is_some" else ("Some", "None")
    elif e.kind == "call" and e.method in ("take", "as_ref", "as_mut", "clone") and e.call is not None and not e.call.dst[1] \
            and fn.locals[e.call.dst[0]].startswith("std::option::Option<"):
        # `if let Some(x) = field.take()`: discriminant switch on the returned Option
        for sb, pl2, t2 in disc_switches(fn):
            if pl2 == [e.call.dst[0], []]:
                for v, tgt in switch_edges(t2):
                    if v is not None and (fn.edge_dominates(sb, tgt, park_bb) or tgt == park_bb):
                        return ("None", "Some")[v]
                listed = {v for v, _ in switch_edges(t2) if v is not None}
                for v, tgt in switch_edges(t2):
                    if v is None and len(listed) == 1 and (fn.edge_dominates(sb, tgt, park_bb) or tgt == park_bb):
                        return ("None", "Some")[1 - listed.pop()]
        return None
    else:
        return None
    if fn.locals[src] != "bool":
        return None
    # follow through copies and `Not`
    inv = False
    cur = src
    for _ in range(4):
        nxt = None
        for b, i, pl, rv, ln in fn.assigns():
            if not pl[1] and rv[0] == "un" and rv[1] == "Not" and rv[2][0] in ("c", "m") and rv[2][1] == [cur, []]:
                nxt, flip = pl[0], True
            elif not pl[1] and rv[0] == "use" and rv[1][0] in ("c", "m") and rv[1][1] == [cur, []]:
                nxt, flip = pl[0], False
            if nxt is not None:
                break
        sw = None
        for b in range(fn.n):
            t = fn.term(b)
            if t[0] == "switch" and t[1][0] in ("c", "m") and t[1][1] == [cur, []]:
                sw = (b, t)
        if sw:
            b, t = sw
            for v, tgt in switch_edges(t):
                if fn.edge_dominates(b, tgt, park_bb) or tgt == park_bb:
                    val = 0 if v == 0 else 1
                    if inv:
                        val = 1 - val
                    return names[val]
            return None
        if nxt is None:
            return None
        cur = nxt
        inv = inv != flip
    return None


def _written_value(w):
    if w.kind == "w":
        if w.value in (0, 1) and not isinstance(w.value, bool):
            return ("false", "true")[w.value]
        if w.value in ("Some", "None"):
            return w.value
    if w.kind == "call":
        if w.method == "take":
            return "None"
        if w.method in ("insert", "replace", "get_or_insert"):
            return "Some"
    return None


def _park_events(fn, sec, slots, regs):
    out = []
    has_clone = any(k == "waker-clone-stored" for _, k, _ in regs)
    for e in sec.events:
        if e.field in slots:
            if e.kind == "call" and e.method in M.PARK_METHODS:
                out.append(e)
            elif has_clone and (e.kind == "w" or (e.kind == "call" and e.method in ("index_mut", "insert", "replace", "push"))):
                out.append(e)
    return out


def _dom_or_same(fn, a, b):
    return a == b or fn.dominates(a, b)


def collect_monitor_model(facts):
    mons = M.monitor_types(facts)
    model = []   # (rec, fn, sections, regs)
    for rec in facts.all_fns(SCOPE_CRATES):
        if rec.get("coroutine") or "Mutex" not in str(rec["locals"]):
            continue
        fn = Fn(rec)
        secs = M.sections_of(fn, mons)
        if secs:
            model.append((rec, fn, secs, registration_events(fn)))
    return mons, model


def rule_park(facts, mons, model):
    r = RuleResult("C04-PARK", "a waker is parked in the critical section that read the park condition; no lock is taken between park and Pending", floor=17)
    P = collections.defaultdict(lambda: collections.defaultdict(set))
    for rec, fn, secs, regs in model:
        for sec in secs:
            slots = set(mons[sec.ty][0])
            for pe in _park_events(fn, sec, slots, regs):
                r.functions.add(fn.id)
                conds = set()
                cond_blocks = set()
                pols = collections.defaultdict(set)
                reach_pe = {x for x in sec.blocks() | {sec.lock.bb} if pe.bb in fn.reach(x)}
                for e in sec.events:
                    if e is pe or e.bb not in reach_pe or (e.bb == pe.bb and e.kind == "call"):
                        continue
                    fields = []
                    if e.kind == "mcall":
                        fields = [f for f in M.callee_field_reads(facts, e.method) if f not in slots]
                    elif e.field not in slots and e.kind in ("r", "call"):
                        fields = [e.field]
                    if fields:
                        conds.update(fields)
                        cond_blocks.add(e.bb)
                        pol = _park_polarity(fn, e, pe.bb) if e.kind != "mcall" else None
                        for f_ in fields:
                            pols[f_].add(pol)
                # every path from the lock acquisition to the park passes a condition read
                if conds and sec.lock.target is not None:
                    if pe.bb in fn.reach(sec.lock.target, avoid_blocks=cond_blocks) and pe.bb not in cond_blocks:
                        conds = set()
                for c in conds:
                    ps = pols.get(c) or {None}
                    # several reads of the same field with different polarity → unknown
                    P[sec.ty][c].add((pe.field, ps.pop() if len(ps) == 1 else None))
                # (B) no lock between the park and the Pending it guards
                relock = None
                sites = [b for b, adt, ln in pending_sites(fn) if _dom_or_same(fn, pe.bb, b)]
                if sites:
                    region = fn.reach(pe.bb, threaded=True)
                    can_reach = set()
                    for sb in sites:
                        for x in region:
                            if sb in fn.reach(x):
                                can_reach.add(x)
                    for lc in lock_calls(fn):
                        if lc.bb in can_reach and lc.bb != sec.lock.bb and lc.bb != pe.bb:
                            relock = lc
                ok = bool(conds) and relock is None
                r.inst({"fn": fn.id, "ty": sec.ty, "slot": f"{sec.ty.rsplit('::', 1)[-1]}.{pe.field}", "line": pe.line, "condition_fields": sorted(conds), "parked_when": {k: sorted(str(x) for x in v) for k, v in pols.items()},
                        "pending_sites_guarded": len(sites)}, ok)
                if not conds:
                    r.violate(fn.id, f"park:{pe.field}", f"waker stored in {sec.ty.rsplit('::', 1)[-1]}.{pe.field} without reading any condition field under the "
                              "same lock acquisition: the condition may have become true (and its wake-up fired) between the earlier check and this store",
                              rec["file"], pe.line)
                elif relock is not None:
                    r.violate(fn.id, f"park-relock:{pe.field}", "a lock is acquired between storing the waker and returning Pending", rec["file"], relock.line)
    return r, P


def _zero_edge_targets(fn, b, field):
    """if block b ends in `switch (x)` where x = Eq/Ne/Gt(v, 0) and v derives from a dec_by_one/current on `field`:
    return the successor(s) taken when v == 0, else None"""
    t = fn.term(b)
    if t[0] != "switch" or t[1][0] not in ("c", "m") or t[1][1][1]:
        return None
    x = t[1][1][0]
    for d in fn.defs.get(x, []):
        if d[0] == "a" and d[1] == b and d[3][0] == "bin" and d[3][1] in ("Eq", "Ne", "Gt", "Lt"):
            a, c0 = d[3][2], d[3][3]
            k = op_const(c0) or op_const(a)
            v = a if op_const(c0) else c0
            if not k or k.get("v") != 0:
                continue
            o = fn.origin(v, through_calls=("::branch", "::unwrap", "::expect"), at=b)
            src_ok = False
            if o[0] == "call":
                ca = o[1]
                if ca.args:
                    oo = fn.origin(ca.args[0], through_calls=M_DEREFS, at=ca.bb)
                    proj = oo[2] if len(oo) > 2 and isinstance(oo[2], list) else []
                    if any(isinstance(p, list) and p[0] == "f" and p[1] == field for p in proj):
                        src_ok = True
            elif o[0] in ("local",):
                src_ok = False
            if not src_ok:
                # value read directly from the field (`remaining_inputs == 0`)
                proj = o[2] if len(o) > 2 and isinstance(o[2], list) else []
                if any(isinstance(p, list) and p[0] == "f" and p[1] == field for p in proj):
                    src_ok = True
            if not src_ok:
                continue
            edges = switch_edges(t)
            if d[3][1] == "Eq":      # x true (1/otherwise) ⇔ v == 0
                return [tb for vv, tb in edges if vv != 0]
            return [tb for vv, tb in edges if vv == 0]   # Ne / Gt / Lt(0, v): x false ⇔ v == 0
    return None


M_DEREFS = ("::deref", "::deref_mut")


def rule_notify(facts, mons, model, P):
    r = RuleResult("C04-NOTIFY", "every write to a field some task parks on is paired with a wake of a parked slot inside the same critical section", floor=25)
    for rec, fn, secs, regs in model:
        for sec in secs:
            slots = set(mons[sec.ty][0])
            tyk = sec.ty
            writes = [e for e in sec.events if e.field and e.field not in slots and P[tyk].get(e.field)
                      and (e.kind == "w" or (e.kind == "call" and e.method not in M.NON_MUTATING))]
            if not writes:
                continue
            r.functions.add(fn.id)
            wakes = [e for e in sec.events if e.field in slots and e.kind == "call" and e.method in M.WAKE_METHODS]
            rel = sec.release_blocks()
            for w in writes:
                r.call_sites += 1
                wv = _written_value(w)
                want = sorted({s for s, pw in P[tyk][w.field] if pw is None or wv is None or pw != wv})
                desc = {"fn": fn.id, "field": f"{tyk.rsplit('::', 1)[-1]}.{w.field}", "write": w.method or f"= {w.value}", "line": w.line,
                        "writes_value": wv, "must_wake": want}
                if INIT_FN.search(fn.path) or (w.kind == "call" and w.method in M.INIT_METHODS):
                    r.inst({**desc, "status": "exempt: initialisation before any poll"})
                    r.exempt(f"{fn.id} {w.field}", "initialisation of shared state in create_partition_*/prepare_for_partitions (runs before any partition is polled)")
                    continue
                ex = None
                sec_ord = sorted(s.lock.line for s in secs if s.ty == tyk).index(sec.lock.line)
                for (ts, fld, ev, fs), why in NOTIFY_EXEMPT.items():
                    fs_name, _, fs_ord = fs.partition("#")
                    if tyk.endswith(ts) and fld == w.field and ev == (w.method or "w") and fn.path.endswith(fs_name) \
                            and (fs_ord == "" or int(fs_ord) == sec_ord):
                        ex = why
                if ex:
                    r.inst({**desc, "status": "exempt"})
                    r.exempt(f"{fn.id} {w.field}.{w.method or 'w'}", ex)
                    continue
                missing = []
                for slot in want:
                    ex_edges, ex_why = _exempt_edges(facts, fn, w.field, slot)
                    for y in ex_why:
                        r.exempt(f"{fn.id} {w.field}->{slot} (edge)", y)
                    ws = [k for k in wakes if k.field == slot]
                    ok1 = any(_dom_or_same(fn, k.bb, w.bb) and k.bb != w.bb for k in ws)     # woken earlier in the same section
                    if not ok1:
                        wake_bbs = {k.bb for k in ws}
                        if w.bb in wake_bbs:
                            ok1 = True
                        else:
                            seen, bad = set(), None
                            st = list(fn.tsucc[w.bb])
                            z = _zero_edge_targets(fn, w.bb, w.field)
                            if z is not None:
                                st = list(z)
                            if w.kind == "call" and w.method == "take" and w.call is not None and "Option" in w.call.name:
                                dl = w.call.dst[0]
                                for sb, pl2, t2 in disc_switches(fn):
                                    if pl2 == [dl, []]:
                                        st = [tgt for v, tgt in switch_edges(t2) if v == 1]
                                        seen.add(sb)
                            st = [s for s in st if (w.bb, s) not in ex_edges]
                            while st:
                                b = st.pop()
                                if b in seen:
                                    continue
                                seen.add(b)
                                if b in wake_bbs:
                                    continue
                                tt = fn.term(b)
                                if tt[0] == "call" and str(tt[1].get("def", "")).endswith("FromResidual::from_residual"):
                                    continue      # error return: the query fails and the error sink wakes the consumer
                                if b in rel:
                                    bad = b
                                    break
                                z = _zero_edge_targets(fn, b, w.field)
                                st.extend(s for s in (z if z is not None else fn.tsucc[b]) if (b, s) not in ex_edges)
                            ok1 = bad is None
                    if not ok1:
                        missing.append(slot)
                ok = not missing
                r.inst(desc, ok)
                if not ok:
                    r.violate(fn.id, f"write:{w.field}:{w.method or 'assign'}", f"{tyk.rsplit('::', 1)[-1]}.{w.field} is modified ({w.method or 'assignment'}) but the wakers parked on it "
                              f"in {missing} are not woken on every path before the guard is released: a task parked on this condition is never re-scheduled",
                              rec["file"], w.line)
    return r


# park conditions that depend on state outside the monitor struct: (scope, mutator callee suffix, monitor type suffix, slot, reason)
EXTERNAL_COND = [
    ("glaredb_core::execution::operators::materialize::PhysicalMaterialize as", "ConcurrentColumnCollection::flush",
     "materialize::OperatorStateInner", "pull_wakers",
     "poll_pull parks when the parallel scan of the shared collection yields no rows; flushing new segments must wake the pullers"),
]


def rule_extcond(facts, mons, model):
    r = RuleResult("C04-EXTCOND", "mutators of out-of-monitor park conditions are followed by a wake of the parked slot on every success path", floor=2)
    for rec, fn, secs, regs in model:
        for scope, mut, tys, slot, why in EXTERNAL_COND:
            if scope not in fn.path:
                continue
            muts = [c for c in fn.calls() if c.name.endswith(mut)]
            if not muts:
                continue
            r.functions.add(fn.id)
            wake_bbs = set()
            for sec in secs:
                if sec.ty.endswith(tys):
                    wake_bbs |= {e.bb for e in sec.events if e.field == slot and e.kind == "call" and e.method in M.WAKE_METHODS}
            for c in muts:
                r.call_sites += 1
                seen, st, bad = set(), [c.target] if c.target is not None else [], None
                while st:
                    b = st.pop()
                    if b in seen:
                        continue
                    seen.add(b)
                    if b in wake_bbs:
                        continue
                    tt = fn.term(b)
                    if tt[0] == "call" and str(tt[1].get("def", "")).endswith("FromResidual::from_residual"):
                        continue
                    if tt[0] == "ret":
                        bad = b
                        break
                    st.extend(fn.tsucc[b])
                ok = bad is None
                r.inst({"fn": fn.id, "mutator": mut, "line": c.line, "slot": slot}, ok)
                if not ok:
                    r.violate(fn.id, f"{mut}->{slot}", f"{mut} changes the condition pullers park on ({why}) but {slot} is not woken on every success path",
                              rec["file"], c.line)
    return r


def rule_stack(facts):
    r = RuleResult("C04-STACK", "ExecutionStack::pop_next re-pushes the popped instruction before returning Pending; NeedsDrain re-executes the same operator", floor=6)
    fid = "glaredb_core::execution::execution_stack::ExecutionStack::pop_next"
    rec = facts.fn(fid)
    if rec is None:
        r.missing_anchor(fid)
        return r
    fn = Fn(rec)
    r.functions.add(fn.id)
    pops = [c for c in fn.calls() if c.name.endswith("Vec::<T, A>::pop")]
    pushes = [c for c in fn.calls() if c.name.endswith("Vec::<T, A>::push")]
    if not pops or not pushes:
        r.missing_anchor("Vec::pop / Vec::push on ExecutionStack.instructions")
        return r

    def from_pop(op, at):
        o = fn.origin(op, at=at)
        return o[0] == "call" and o[1] in pops

    repush = [p for p in pushes if len(p.args) > 1 and from_pop(p.args[1], p.bb)]
    for b, adt, ln in pending_sites(fn):
        if not adt.endswith("StackControlFlow"):
            continue
        ok = any(fn.block_dominates_t(p.bb, b) for p in repush)
        r.inst({"fn": fn.id, "pending_line": ln, "repush_of_popped_instruction": ok}, ok)
        if not ok:
            r.violate(fn.id, "Pending-without-repush", "StackControlFlow::Pending is returned without pushing the popped instruction back: after the wake-up the "
                      "pipeline resumes with the wrong instruction (the pending operator is skipped)", rec["file"], ln)
    # NeedsDrain arm
    pf = adt_variants(facts, "glaredb_core::execution::operators::PollFinalize") or {}
    found = False
    # which Instruction arm a block belongs to
    iv = adt_variants(facts, "glaredb_core::execution::execution_stack::Instruction") or {}
    arm_of = {}
    for sb0, pl0, t0 in disc_switches(fn):
        if fn.locals[pl0[0]].endswith("execution_stack::Instruction"):
            for v0, tgt0 in switch_edges(t0):
                name0 = next((n for n, d in iv.items() if d == v0), None)
                if name0:
                    for b0 in region_of_edges(fn, [(sb0, tgt0)]):
                        arm_of[b0] = name0
    for sb, pl, t in disc_switches(fn):
        if not fn.locals[pl[0]].endswith("PollFinalize"):
            continue
        if arm_of.get(sb) == "FinalizeAbandonedOperator":
            # an operator in front of an exhausted one: finalized to release what other partitions wait for, never drained
            for v, tgt in switch_edges(t):
                if v == pf.get("NeedsDrain"):
                    reach = fn.reach(tgt, avoid_blocks=[sb], threaded=False) | {tgt}
                    execs = []
                    for p in pushes:
                        if p.bb in reach and len(p.args) > 1:
                            o = fn.origin(p.args[1], at=p.bb)
                            if o[0] == "rv" and o[1][0] == "agg" and o[1][1][0] == "adt" and o[1][1][2] == "ExecuteOperator":
                                execs.append(p)
                    r.inst({"fn": fn.id, "arm": "FinalizeAbandonedOperator/NeedsDrain", "drains": bool(execs)}, not execs)
                    if execs:
                        r.violate(fn.id, "Abandoned-NeedsDrain-drains", "an abandoned operator is drained into the operator that reported Exhausted: "
                                  "the exhausted operator is executed again and the finalize sequence of the rest of the pipeline is pushed twice", rec["file"], t[5])
            continue
        for v, tgt in switch_edges(t):
            if v == pf.get("NeedsDrain"):
                found = True
                region = region_of_edges(fn, [(sb, tgt)])
                good = False
                for p in pushes:
                    if p.bb in region and len(p.args) > 1:
                        o = fn.origin(p.args[1], at=p.bb)
                        if o[0] == "rv" and o[1][0] == "agg" and o[1][1][0] == "adt" and o[1][1][2] == "ExecuteOperator":
                            flds = o[1][1][3]
                            ops = o[1][2]
                            idx = fn.origin(ops[flds.index("operator_idx")], at=p.bb)
                            start = op_const(ops[flds.index("is_pipeline_start")])
                            same_idx = idx[0] == "call" and idx[1] in pops       # the popped FinalizeOperator's operator_idx
                            if same_idx and start and start.get("v") == 1:
                                good = True
                r.inst({"fn": fn.id, "arm": "PollFinalize::NeedsDrain", "pushes_execute_of_same_operator_as_pipeline_start": good}, good)
                if not good:
                    r.violate(fn.id, "NeedsDrain-arm", "the NeedsDrain arm does not push ExecuteOperator{operator_idx: <same>, is_pipeline_start: true}: "
                              "the draining operator is never polled again", rec["file"], t[5])
    if not found:
        r.missing_anchor("match on PollFinalize in pop_next")
    # Exhausted arm: (a) the operators before the exhausted one are finalized (a prober that is never finalized never reports
    # "done probing" and the other partitions wait for it forever); (b) the arm throws pending instructions away — among them may be
    # the `ExecuteOperator{is_pipeline_start: true}` of an operator that answered NeedsDrain earlier in this pipeline and whose other
    # side (another pipeline pushing into it) is parked until it is polled again.
    pe = adt_variants(facts, "glaredb_core::execution::operators::PollExecute") or {}
    arm = None
    for sb, pl, t in disc_switches(fn):
        if fn.locals[pl[0]].endswith("operators::PollExecute"):
            for v, tgt in switch_edges(t):
                if v == pe.get("Exhausted"):
                    arm = (sb, tgt, t)
    if arm is None:
        r.missing_anchor("PollExecute::Exhausted arm in pop_next")
        return r
    sb, tgt, t = arm
    region = region_of_edges(fn, [(sb, tgt)])
    fin_pushes = []
    for p in pushes:
        if p.bb in region and len(p.args) > 1:
            o = fn.origin(p.args[1], at=p.bb)
            if o[0] == "rv" and o[1][0] == "agg" and o[1][1][0] == "adt" and o[1][1][2].startswith("Finalize"):
                flds, ops = o[1][1][3], o[1][2]
                idx = fn.origin(ops[flds.index("operator_idx")], at=p.bb)
                fin_pushes.append((p, o[1][1][2], idx))
    # upstream finalize: operator_idx comes out of an iterator (the loop over 1..operator_idx), and the push is guarded by the
    # per-operator `finalized` flag so that an operator is never finalized twice
    up = [(p, v, idx) for p, v, idx in fin_pushes if idx[0] == "call" and idx[1].name.endswith("::next") or
          (idx[0] == "call" and "Iterator" in idx[1].name)]
    ok = bool(up)
    guarded = False
    for p, v, idx in up:
        # `if !self.finalized[i]`: a switch on a value loaded through Vec::index dominates the push
        for b in range(fn.n):
            tt = fn.term(b)
            if tt[0] == "switch" and fn.dominates(b, p.bb) and b in region:
                o = fn.origin(tt[1], at=b) if tt[1][0] in ("c", "m") else None
                if o and o[0] == "call" and "Index" in o[1].name:
                    guarded = True
    r.inst({"fn": fn.id, "arm": "PollExecute::Exhausted", "finalizes_operators_before_the_exhausted_one": ok, "guarded_by_finalized_flag": guarded}, ok and guarded)
    if not ok:
        r.violate(fn.id, "Exhausted-arm-upstream", "the Exhausted arm does not finalize the operators before the exhausted one: a join prober in this "
                  "partition never reports that it is done and the partitions waiting for all probers hang (LEFT JOIN … LIMIT n)", rec["file"], t[5])
    elif not guarded:
        r.violate(fn.id, "Exhausted-arm-upstream-guard", "upstream operators are finalized without consulting the per-operator finalized flag: an operator "
                  "that was already finalized (it drained as pipeline start) is finalized twice and its partition counter underflows", rec["file"], t[5])
    # (b) discarded drain obligations
    clears = [c for c in fn.calls() if c.bb in region and c.name.endswith("Vec::<T, A>::clear")]
    inspects = [c for c in fn.calls() if c.bb in region and any(k in c.name for k in ("Vec::<T, A>::retain", "Vec::<T, A>::drain", "slice::<impl [T]>::iter", "Vec::<T, A>::pop"))]
    if clears and not inspects:
        r.inst({"fn": fn.id, "arm": "PollExecute::Exhausted", "discards_pending_instructions_unseen": True}, False)
        r.violate(fn.id, "Exhausted-arm-discards-drain", "the Exhausted arm clears the instruction stack without looking at it: the pending "
                  "ExecuteOperator{is_pipeline_start: true} of an operator that answered NeedsDrain earlier (e.g. the pull side of a UNION) is dropped, "
                  "that operator is never polled again, and the pipeline pushing into its other side stays parked forever", rec["file"], clears[0].line)
    else:
        r.inst({"fn": fn.id, "arm": "PollExecute::Exhausted", "discards_pending_instructions_unseen": False})
    return r


def rule_sched(facts):
    r = RuleResult("C04-SCHED", "scheduler check-then-act transitions happen inside one critical section; native and wasm runtimes agree", floor=8)
    mons = {a["id"]: ([], [x[0] for x in a["variants"][0]["fields"]]) for a in facts.records("adt")
            if a["kind"] == "struct" and a["id"].endswith("ScheduleState") and a["variants"]}
    if len(mons) < 2:
        r.missing_anchor("ScheduleState structs of the native and wasm runtimes")
    sigs = {}
    NEED = {("running", 1): [("running", "false"), ("completed", "false"), ("canceled", "false")], ("pending", 1): [("running", "true")],
            ("running", 0): [("pending", "false")], ("pending", 0): [("pending", "true")]}
    for rec in facts.all_fns(["glaredb_rt_native", "glaredb_wasm"]):
        if "ScheduleState" not in str(rec["locals"]):
            continue
        fn = Fn(rec)
        for sec in M.sections_of(fn, mons):
            rt = "wasm" if "wasm" in rec["krate"] else "native"
            sig = []
            for w in sec.events:
                if w.kind != "w":
                    continue
                need = NEED.get((w.field, w.value))
                guards = []
                for e in sec.events:
                    if e.kind == "r" and _dom_or_same(fn, e.bb, w.bb):
                        guards.append((e.field, _park_polarity(fn, e, w.bb)))
                sig.append((w.field, w.value, tuple(sorted(g for g in guards if g[1]))))
                if need is None:
                    continue
                r.functions.add(fn.id)
                ok = all(g in guards for g in need)
                r.inst({"fn": fn.id, "write": f"{w.field} = {w.value}", "line": w.line, "guards_in_same_section": [g for g in guards if g[1]], "required": need}, ok)
                if not ok:
                    r.violate(fn.id, f"{w.field}={w.value}", f"`{w.field} = {bool(w.value)}` is not guarded, inside the same critical section, by {need}: a wake-up arriving "
                              "between the check and the write is lost (task never re-polled) or the task runs twice", rec["file"], w.line)
            name = fn.path.replace("WasmTaskState", "TaskState").rsplit("TaskState", 1)[-1] if "TaskState" in fn.path else fn.path.rsplit("::", 2)[-2] + "::" + fn.path.rsplit("::", 1)[-1]
            sigs.setdefault(name, {})[rt] = sig
        # worker loop: after `pending = false` the loop must be able to reach execute() again
        for sec in M.sections_of(fn, mons):
            for w in sec.events:
                if w.kind == "w" and w.field == "pending" and w.value == 0:
                    ex = [c for c in fn.calls() if c.name.endswith("TaskState::execute")]
                    ok = any(c.bb in fn.reach(w.bb) for c in ex)
                    r.inst({"fn": fn.id, "loop_back_to_execute_after_pending_cleared": ok}, ok)
                    if not ok:
                        r.violate(fn.id, "no-repoll-after-pending", "after consuming the `pending` flag the worker does not poll the pipeline again: the wake-up "
                                  "recorded while it was running is lost", rec["file"], w.line)
    for name, by in sigs.items():
        if "native" in by and "wasm" in by:
            ok = by["native"] == by["wasm"]
            r.inst({"sibling": name, "native": str(by["native"]), "wasm": str(by["wasm"])}, ok)
            if not ok:
                r.violate("glaredb_wasm::runtime::WasmTaskState" + name, "sibling-disagreement", f"scheduler state transitions of the wasm runtime differ from the native runtime: "
                          f"{by['wasm']} vs {by['native']}", "crates/glaredb_wasm/src/runtime.rs", 0)
    # cancel: every QueryHandle::cancel sets `canceled` and re-schedules every task
    for rec in facts.fns_matching(lambda i: i.endswith("QueryHandle>::cancel") and ("glaredb_rt_native" in i or "glaredb_wasm" in i)):
        fn = Fn(rec)
        r.functions.add(fn.id)
        sched = [c for c in fn.calls() if c.name.endswith("TaskState::schedule")]
        wr = [e for sec in M.sections_of(fn, mons) for e in sec.events if e.kind == "w" and e.field == "canceled" and e.value == 1]
        ok = bool(sched) and bool(wr)
        r.inst({"fn": fn.id, "sets_canceled": bool(wr), "reschedules": bool(sched)}, ok)
        if not ok:
            r.violate(fn.id, "cancel", "cancel() does not set `canceled` and re-schedule every task: a query parked on an operator cannot be canceled (the handle's "
                      "waiters hang until the query ends by itself)", rec["file"], rec["line"])
    return r


def rule_err(facts, mons):
    r = RuleResult("C04-ERR", "a worker's Ready(Err) reaches ErrorSink::set_error; set_error stores the error and wakes the consumer under one lock; the consumer checks error first", floor=4)
    for rec in facts.fns_matching(lambda i: i.endswith("TaskState::execute")):
        fn = Fn(rec)
        r.functions.add(fn.id)
        polls = [c for c in fn.calls() if c.name.endswith("ExecutablePartitionPipeline::poll_execute")]
        errs = [c for c in fn.calls() if c.decl.endswith("ErrorSink::set_error") or c.name.endswith("::set_error")]
        ok = False
        for c in errs:
            o = fn.origin(c.args[1], at=c.bb) if len(c.args) > 1 else None
            if o and o[0] == "call" and o[1] in polls:
                ok = True
        r.inst({"fn": fn.id, "poll_calls": len(polls), "set_error_with_poll_error": ok}, ok)
        if not ok:
            r.violate(fn.id, "error-not-routed", "the error returned by poll_execute is not passed to ErrorSink::set_error: the consumer waits forever", rec["file"], rec["line"])
    # set_error impls
    for rec in facts.fns_matching(lambda i: i.endswith("ErrorSink>::set_error") and "glaredb_core" in i):
        fn = Fn(rec)
        secs = M.sections_of(fn, mons)
        if not secs:
            continue
        r.functions.add(fn.id)
        for sec in secs:
            w = [e for e in sec.events if e.kind == "w" and e.field == "error"]
            k = [e for e in sec.events if e.kind == "call" and e.method in M.WAKE_METHODS and "waker" in (e.field or "")]
            ok = bool(w) and bool(k)
            r.inst({"fn": fn.id, "stores_error": bool(w), "wakes_in_same_section": bool(k)}, ok)
            if not ok:
                r.violate(fn.id, "set_error", "set_error does not store the error and wake the consumer inside one critical section", rec["file"], rec["line"])
    # consumer: error checked before buffered / remaining_inputs
    fid = "<glaredb_core::execution::operators::results::streaming::ResultStream as futures::Stream>::poll_next"
    rec = facts.fn(fid)
    if rec is None:
        r.missing_anchor(fid)
    else:
        fn = Fn(rec)
        r.functions.add(fn.id)
        for sec in M.sections_of(fn, mons):
            first = {}
            for e in sec.events:
                if e.field in ("error", "buffered", "remaining_inputs") and e.field not in first:
                    first[e.field] = e
            ok = "error" in first and all(_dom_or_same(fn, first["error"].bb, e.bb) for f_, e in first.items() if f_ != "error")
            r.inst({"fn": fn.id, "first_access_order": {k: v.line for k, v in first.items()}}, ok)
            if not ok:
                r.violate(fn.id, "error-checked-late", "poll_next does not look at `error` before `buffered`/`remaining_inputs`: an error can be masked by end-of-stream",
                          rec["file"], rec["line"])
    return r


SPAWN = re.compile(r"::(spawn|spawn_local|spawn_fifo|spawn_blocking)$")
WAKE_EXT = re.compile(r"task::(wake::)?Waker::(wake|wake_by_ref)$")


def rule_lock(facts, park_sites=()):
    """lock-order graph over lock classes (guarded type), interprocedural.
    park_sites: (function, monitor type, slot) of every waker registration (from C04-PARK) — used to tell slots that
    only ever hold the wakers of external consumers (registered in code the task runtime never calls) from slots
    holding pipeline-task wakers; waking an external waker does not enter the workspace's `impl Wake`."""
    r = RuleResult("C04-LOCK", "the lock-order graph (held → acquired, through calls, wakers and dyn sinks) is acyclic and no lock class is re-acquired while held", floor=20)
    cg = CallGraph(facts)
    wake_impls = [n for n, m in cg.nodes.items() if (m.get("impl_trait") or "").endswith("task::Wake") and m.get("name") in ("wake", "wake_by_ref")]
    exec_roots = [n for n in cg.nodes if n.endswith("TaskState::execute")]
    pipeline_code = cg.reachable(exec_roots, use_x=False)
    slot_role = {}
    for f_, ty_, slot_ in park_sites:
        key = (ty_, slot_)
        root = cg.nodes.get(f_, {}).get("root") or f_
        if f_ in pipeline_code or root in pipeline_code:
            slot_role[key] = "pipeline"
        else:
            slot_role.setdefault(key, "external")
    external_wakes = set()     # (function path, bb) of Waker::wake* calls on a waker taken from an external-only slot
    # per function: lock classes acquired directly, calls made while each lock is held
    direct = {}
    held_calls = {}     # fn -> list of (class, callee name, line)
    nested = []         # (fn, A, B, line)
    spawned_closures = set()
    recs = {}
    for rec in facts.all_fns(SCOPE_CRATES):
        s = str(rec["locals"])
        has_lock = "Mutex" in s or "RwLock" in s
        fn = None
        # closures handed to a spawn function run later on another stack: not under the spawner's locks
        if "spawn" in str(rec["bbs"]):
            fn = Fn(rec)
            for c in fn.calls():
                if SPAWN.search(c.name):
                    for a in c.args:
                        o = fn.origin(a, at=c.bb)
                        if o[0] == "rv" and o[1][0] == "agg" and o[1][1][0] in ("closure", "coroutine", "coroutine_closure"):
                            spawned_closures.add(o[1][1][1])
        if not has_lock:
            continue
        fn = fn or Fn(rec)
        lcs = lock_calls(fn)
        if not lcs:
            continue
        recs[fn.path] = rec
        for c in fn.calls():
            if WAKE_EXT.search(c.name) and c.args:
                o = fn.origin(c.args[0], through_calls=M_DEREFS + ("::take", "::as_ref", "::as_mut", "::unwrap", "::expect"), at=c.bb)
                if o[0] == "call" and is_lock_call(o[1]):
                    flds = [p[1] for p in (o[2] if len(o) > 2 and isinstance(o[2], list) else []) if isinstance(p, list) and p[0] == "f"]
                    ty0, _ = lock_class(fn, o[1])
                    if flds and slot_role.get((ty0, flds[0])) == "external":
                        external_wakes.add((fn.path, c.bb))
        classes = []
        for lc in lcs:
            ty, path = lock_class(fn, lc)
            cls = ty
            classes.append((lc, cls))
        direct[fn.path] = {cls for _, cls in classes}
        hc = []
        for lc, cls in classes:
            sec = M.Section(fn, lc, cls, "")
            blks = sec.blocks()
            rel = sec.release_blocks()
            for c in fn.calls():
                if c.bb in blks and c.bb != lc.bb and c is not lc:
                    # a call in a release block that *is* the release (mem::drop(guard)) does not run under the lock
                    if c.bb in rel and "mem::drop" in c.name:
                        continue
                    if any(c.name.endswith(sfx) for sfx in ("::deref", "::deref_mut")):
                        continue
                    for lc2, cls2 in classes:
                        if c is lc2:
                            nested.append((fn.path, cls, cls2, c.line))
                    hc.append((cls, c, c.line))
        held_calls[fn.path] = hc
    # transitive acquisitions: least fixpoint of acq[f] = direct[f] ∪ ⋃ acq[callee]  (witness chain kept per class)
    def callees_of(name):
        return {x for x in cg.edges.get(name, ()) if x not in spawned_closures}

    all_nodes = set(cg.nodes)
    acq = {n: {c: [n] for c in direct.get(n, ())} for n in all_nodes}
    rev = collections.defaultdict(set)
    for n in all_nodes:
        for m in callees_of(n):
            # calls to the external Waker::wake* resolve to every workspace `impl Wake`
            if WAKE_EXT.search(m):
                for w in wake_impls:
                    rev[w].add(n)
            elif m in all_nodes:
                rev[m].add(n)
    work = [n for n in all_nodes if acq[n]]
    while work:
        n = work.pop()
        for caller in rev.get(n, ()):
            changed = False
            for c, chain in acq[n].items():
                if c not in acq[caller]:
                    acq[caller][c] = [caller] + chain
                    changed = True
            if changed:
                work.append(caller)

    def acquires(name):
        if WAKE_EXT.search(name):
            res = {}
            for w in wake_impls:
                for c, chain in acq.get(w, {}).items():
                    res.setdefault(c, [name] + chain)
            return res
        return acq.get(name, {})

    edges = {}
    for fpath, hc in held_calls.items():
        for cls, c, line in hc:
            tgt = c.name
            targets = set()
            if WAKE_EXT.search(tgt):
                if (fpath, c.bb) in external_wakes:
                    r.exempt(f"{fpath} Waker::wake", "the waker comes from a slot that is only ever filled by code the task runtime never calls "
                             "(external consumer's waker, e.g. ResultStream::poll_next): waking it does not enter the workspace's impl Wake (checked from the C04-PARK sites)")
                    continue
                targets |= set(wake_impls)
            if c.callee.get("rkind") in ("unresolved", "virtual") or ("trait" in c.callee and "res" not in c.callee):
                for impl in cg.by_trait_item.get(c.decl, []):
                    sa = cg.nodes[impl].get("self_adt")
                    if sa is None or sa in cg.inst_adts:
                        targets.add(impl)
            else:
                targets.add(tgt)
            for t_ in targets:
                for cls2, chain in acquires(t_).items():
                    edges.setdefault((cls, cls2), (fpath, line, [fpath] + chain))
    for fpath, a, b, line in nested:
        edges.setdefault((a, b), (fpath, line, [fpath]))
    short = lambda s: s.rsplit("::", 1)[-1].split("<")[0] if "<" not in s else s.split("<")[0].rsplit("::", 1)[-1] + "<…>"
    for (a, b), (fpath, line, chain) in sorted(edges.items()):
        r.inst({"held": short(a), "acquired": short(b), "witness": chain[0].rsplit("::", 2)[-2] + "::" + chain[0].rsplit("::", 1)[-1], "line": line, "via": [short(x) for x in chain[1:4]]})
        r.functions.add(fpath)
    # cycles (SCCs of the class graph) and self loops
    adj = collections.defaultdict(set)
    for (a, b) in edges:
        adj[a].add(b)
    nodes = set(adj) | {b for bs in adj.values() for b in bs}
    index, low, st, onst, out = {}, {}, [], set(), []

    def strong(v):
        index[v] = low[v] = len(index)
        st.append(v)
        onst.add(v)
        for w in adj[v]:
            if w not in index:
                strong(w)
                low[v] = min(low[v], low[w])
            elif w in onst:
                low[v] = min(low[v], index[w])
        if low[v] == index[v]:
            comp = []
            while True:
                w = st.pop()
                onst.discard(w)
                comp.append(w)
                if w == v:
                    break
            out.append(comp)
    for v in sorted(nodes):
        if v not in index:
            strong(v)
    for comp in out:
        if len(comp) > 1:
            cyc = sorted(comp)
            wit = []
            for a in cyc:
                for b in cyc:
                    if (a, b) in edges and a != b:
                        f_, ln, ch = edges[(a, b)]
                        wit.append(f"{short(a)}→{short(b)} in {ch[0].rsplit('::', 1)[-1]}:{ln} via {' → '.join(x.rsplit('::', 1)[-1] for x in ch[1:5])}")
            f0, ln0, _ = edges[[(a, b) for a in cyc for b in cyc if (a, b) in edges and a != b][0]]
            r.violate("lock-order", "cycle:" + "<->".join(short(c) for c in cyc), "lock-order inversion (potential deadlock): " + "; ".join(wit),
                      recs.get(f0, {}).get("file", ""), ln0)
    for (a, b), (fpath, line, chain) in edges.items():
        if a == b:
            r.violate(fpath, "reacquire:" + short(a), f"lock class {short(a)} may be acquired again while held (parking_lot mutexes are not re-entrant) via "
                      f"{' → '.join(x.rsplit('::', 1)[-1] for x in chain[:6])}", recs.get(fpath, {}).get("file", ""), line)
    return r


def rule_addblocks(facts):
    """checked side condition of the MergeQueue::add_sorted_blocks exemption"""
    r = RuleResult("C04-ADDBLOCKS", "add_sorted_blocks (no wake) is only reached from PhysicalGlobalSort::poll_finalize_execute, whose success exits return NeedsDrain", floor=1)
    cg = CallGraph(facts)
    Q = "glaredb_core::execution::operators::sort::merge_queue::MergeQueue::"
    tgt = Q + "add_sorted_blocks"
    if tgt not in cg.nodes:
        r.missing_anchor(tgt)
        return r
    chain_ok = True
    callers = set(cg.callers(tgt))
    top = set()
    seen = set()
    while callers:
        c = callers.pop()
        if c in seen:
            continue
        seen.add(c)
        if c.startswith(Q):
            callers |= set(cg.callers(c))
        else:
            top.add(c)
    want = "<glaredb_core::execution::operators::sort::global_sort::PhysicalGlobalSort as glaredb_core::execution::operators::ExecuteOperator>::poll_finalize_execute"
    for c in sorted(top):
        ok = c == want
        r.inst({"caller_of_add_sorted_blocks": c}, ok)
        if not ok:
            r.violate(c, "add_sorted_blocks-caller", "MergeQueue::add_sorted_blocks mutates `runs`/`remaining_collection_count` without waking parked "
                      "mergers; that is only sound when the caller re-enters poll_merge_next itself (PhysicalGlobalSort::poll_finalize_execute → NeedsDrain)",
                      cg.nodes[c]["file"], cg.nodes[c]["line"])
    rec = facts.fn(want)
    if rec is None:
        r.missing_anchor(want)
        return r
    fn = Fn(rec)
    r.functions.add(fn.id)
    pf = adt_variants(facts, "glaredb_core::execution::operators::PollFinalize") or {}
    calls = [c for c in fn.calls() if c.name in (Q + "add_sorted_partition", tgt)]
    for c in calls:
        # every Ok(...) constructed after the call carries PollFinalize::NeedsDrain
        after = fn.reach(c.target) if c.target is not None else set()
        bad = []
        n_ok = 0
        for b, i, pl, rv, ln in fn.assigns():
            if b in after and rv[0] == "agg" and rv[1][0] == "adt" and rv[1][1].endswith("PollFinalize"):
                n_ok += 1
                if rv[1][2] != "NeedsDrain":
                    bad.append((rv[1][2], ln))
        ok = n_ok > 0 and not bad
        r.inst({"fn": fn.id, "call_line": c.line, "poll_finalize_values_after_call": n_ok, "non_NeedsDrain": bad}, ok)
        if not ok:
            r.violate(fn.id, "finalize-after-add_sorted", f"after adding sorted blocks the function returns {bad or 'no PollFinalize'} instead of NeedsDrain: "
                      "nobody re-polls the merge queue for the new runs", rec["file"], c.line)
    if not calls:
        r.missing_anchor("call of MergeQueue::add_sorted_partition in PhysicalGlobalSort::poll_finalize_execute")
    return r


def _arg_roots(fn, op, at, depth=10):
    """{(parameter index, opaque)}: parameters the operand's value is computed from. `opaque` = on the way a call received a
    *reference* derived from the parameter (it may read interior-mutable state behind it: a Mutex, an atomic, a shared
    collection); plain field reads, copies, operators and calls on copied values are transparent."""
    from .mir import operand_locals
    roots, seen = set(), set()
    st = [(l, False) for l in operand_locals(op, set())]
    while st:
        l, opq = st.pop()
        if (l, opq) in seen:
            continue
        seen.add((l, opq))
        ds = fn.defs.get(l, [])
        if 1 <= l <= fn.argc:
            roots.add((l, opq))
            if not ds:
                continue
        for d in ds:
            if d[0] in ("a", "pa"):
                st.extend((x, opq) for x in operand_locals(d[3], set()))
            else:
                for a in d[2].args:
                    for x in operand_locals(a, set()):
                        by_ref = fn.locals[x].lstrip().startswith("&") or fn.locals[x].lstrip().startswith("*")
                        st.append((x, opq or by_ref))
    return roots


def rule_barrier(facts):
    """Countdown barriers (`remaining_* : DelayedPartitionCount`): the last partition to arrive flips the phase and wakes the others.
    A partition that leaves the function with a non-Pending, non-error result *without* arriving (dec_by_one) is never counted and the
    partitions parked on the barrier wait forever. Leaving without arriving is legitimate only when decided by the partition's own
    phase (it arrived on an earlier poll: discriminant of its partition state) or by the operator's immutable configuration (the
    barrier is unused for this plan, identically for every partition: plain field reads of the shared operator state, which cannot change
    behind a shared reference) - never by something read through a call that was handed a reference into the shared operator state
    (locks, atomics, shared collections), nor by the batch."""
    r = RuleResult("C04-BARRIER", "every path that leaves a barrier function successfully without decrementing the countdown is decided by the partition's own "
                   "phase or by the operator's immutable configuration", floor=10)
    for rec in facts.all_fns(["glaredb_core"], contains="dec_by_one"):
        if "dec_by_one" not in str(rec["bbs"]) or "::tests::" in rec["id"]:
            continue
        fn = Fn(rec)
        decs = [c for c in fn.calls() if c.name.endswith("DelayedPartitionCount::dec_by_one")]
        if not decs:
            continue
        r.functions.add(fn.id)
        pend, errs = set(), set()
        for b, i, pl, rv, ln in fn.assigns():
            if rv[0] == "agg" and rv[1][0] == "adt" and rv[1][2] == "Pending":
                pend.add(b)
        for c in fn.calls():
            if c.name.endswith("from_residual"):
                errs.add(c.bb)
        shared = {l for l in range(1, fn.argc + 1) if "OperatorState" in fn.locals[l]}
        data = {l for l in range(1, fn.argc + 1) if "arrays::batch::Batch" in fn.locals[l] or "std::task::Context" in fn.locals[l]}
        for d in decs:
            o = fn.origin(d.args[0], at=d.bb)
            fld = ".".join(p[1] for p in (o[2] if len(o) > 2 and isinstance(o[2], list) else []) if isinstance(p, list) and p[0] == "f") or "?"
            can, st = set(), [d.bb]
            while st:
                x = st.pop()
                if x not in can:
                    can.add(x)
                    st.extend(fn.pred[x])
            before = fn.reachable_from(0, avoid=[d.bb])
            bad = []
            nskip = 0
            for u in sorted(can):
                if u == d.bb or u not in before:
                    continue
                for v in fn.succ[u]:
                    if v in can:
                        continue
                    reach = fn.reachable_from(v, avoid=list(pend | errs | {d.bb}))
                    if not any(e in reach for e in fn.exits):
                        continue
                    nskip += 1
                    t = fn.term(u)
                    if t[0] != "switch":
                        continue
                    roots = _arg_roots(fn, t[1], u)
                    for s_ in fn.bbs[u]["s"]:
                        if s_[0] == "a" and s_[1][0] in {x for x in [t[1][1][0]] if t[1][0] in ("c", "m")} and s_[2][0] == "disc":
                            roots |= _arg_roots(fn, ["c", s_[2][1]], u)
                    hit = {x for x, opq in roots if x in data or (x in shared and opq)}
                    if hit:
                        bad.append((t[5] if len(t) > 5 else rec["line"], sorted(fn.local_name(x) for x in hit)))
            r.call_sites += 1
            r.inst({"fn": fn.id, "counter": fld, "line": d.line, "paths_leaving_without_arrival": nskip, "decided_by_shared_state": bool(bad)}, not bad)
            for ln, who in bad:
                r.violate(fn.id, f"leaves-without-arrival:{fld}", f"a path decided at line {ln} by `{', '.join(who)}` (shared operator state / data, not the partition's own phase "
                          f"or the operator's configuration) returns successfully without `{fld}.dec_by_one()`: that partition is never counted, the countdown "
                          "never reaches zero and the partitions parked on the barrier are never woken", rec["file"], ln)
    return r



def rule_excl(facts):
    """Declaration rule (replaces the planned compile-fail witness): every operator poll method receives its partition state by `&mut`
    and the shared operator state by `&`; the pipeline / execution-stack drivers take `&mut self`. Exclusive access to a partition's state is
    then enforced by the borrow checker for all schedules (no two workers can poll the same partition at once); what remains to be
    decided by the other rules is the shared operator state."""
    r = RuleResult("C04-EXCL", "operator poll methods take the partition state by `&mut` and the operator state by `&`; pipeline drivers take `&mut self`", floor=40)
    for rec in facts.all_fns(["glaredb_core"], contains="::poll_"):
        fid = rec["id"]
        if "::tests::" in fid or rec.get("dk") == "Closure" or "testutil" in fid:
            continue
        nm = fid.rsplit("::", 1)[-1]
        if not nm.startswith("poll_"):
            continue
        params = [t.strip() for t in rec["locals"][1:rec["argc"] + 1]]
        if "Operator>" in fid and "execution::operators::" in fid:
            part = [t for t in params if "Partition" in t and "State" in t]
            shared = [t for t in params if "OperatorState" in t]
            ok = all(t.startswith("&mut ") for t in part) and all(t.startswith("&") and not t.startswith("&mut ") for t in shared) and \
                params[0].startswith("&") and not params[0].startswith("&mut ")
            if not part and not shared:
                continue        # unit states (`&()`): nothing to protect
            r.functions.add(fid)
            r.inst({"fn": fid, "partition_state": [t[:5] for t in part], "operator_state": [t[:4] for t in shared]}, ok)
            if not ok:
                r.violate(fid, "poll-signature", "an operator poll method takes its partition state by shared reference (or the operator / shared state by `&mut`): "
                          "exclusive per-partition access is no longer enforced by the type system", rec["file"], rec["line"])
        elif "execution::partition_pipeline::" in fid or "execution::execution_stack::" in fid:
            ok = params and params[0].startswith("&mut ")
            r.functions.add(fid)
            r.inst({"fn": fid, "self": params[0][:5] if params else "?"}, bool(ok))
            if not ok:
                r.violate(fid, "driver-signature", "a pipeline driver method does not take `&mut self`: one partition pipeline could be polled from two workers at once",
                          rec["file"], rec["line"])
    return r


def rule_finflag(facts):
    """`finalized[i]` means: operator i has been finalized (or reported Exhausted itself). The Exhausted arm clears the instruction stack,
    so a flag that is raised when a finalize is merely *scheduled* can outlive the scheduled instruction: the operator is then never
    finalized, its barrier never released. A flag raised for an operator other than the one whose instruction is being handled (index
    taken from a loop) must therefore sit behind the result of that operator's `handle_finalize`."""
    r = RuleResult("C04-FINFLAG", "ExecutionStack raises `finalized[i]` for another operator only behind the result of that operator's finalize call", floor=3)
    rec = facts.fn("glaredb_core::execution::execution_stack::ExecutionStack::pop_next")
    if rec is None:
        r.missing_anchor("ExecutionStack::pop_next")
        return r
    fn = Fn(rec)
    r.functions.add(fn.id)
    fin_calls = [c.bb for c in fn.calls() if c.name.endswith("::handle_finalize")]
    if not fin_calls:
        r.missing_anchor("handle_finalize call in ExecutionStack::pop_next")
        return r
    for c in fn.calls():
        if not (c.decl.startswith("std::ops::IndexMut") or c.name.endswith("::index_mut")) or len(c.args) < 2:
            continue
        bo = fn.origin(c.args[0], at=c.bb)
        flds = [p_[1] for p_ in (bo[2] if len(bo) > 2 and isinstance(bo[2], list) else []) if isinstance(p_, list) and p_[0] == "f"]
        if "finalized" not in flds:
            continue
        io = fn.origin(c.args[1], at=c.bb, through_calls=("::unwrap", "::branch"))
        from_loop = io[0] == "call" and ("Iterator" in io[1].name or io[1].name.endswith("::next"))
        r.call_sites += 1
        ok = (not from_loop) or any(fn.dominates(b, c.bb) for b in fin_calls)
        r.inst({"fn": fn.id, "line": c.line, "index_from_loop": from_loop, "behind_finalize_result": any(fn.dominates(b, c.bb) for b in fin_calls)}, ok)
        if not ok:
            r.violate(fn.id, "flag-raised-at-scheduling", f"`finalized[i]` is raised at line {c.line} for an operator taken from a loop, before that operator's finalize has run: "
                      "if the scheduled finalize instruction is discarded (a later operator is exhausted by the same batch) the operator is never finalized and "
                      "the partitions waiting on its barrier hang", rec["file"], c.line)
    return r


def run(ctx):
    facts = ctx["facts"]
    mons, model = collect_monitor_model(facts)
    park, P = rule_park(facts, mons, model)
    PARK_SITES = [(i["fn"], i["ty"], i["slot"].split(".", 1)[1]) for i in park.instances]
    return [rule_pend(facts), park, rule_notify(facts, mons, model, P), rule_extcond(facts, mons, model), rule_addblocks(facts),
            rule_stack(facts), rule_sched(facts), rule_err(facts, mons), rule_lock(facts, PARK_SITES), rule_barrier(facts), rule_excl(facts), rule_finflag(facts)]


CLAIM = {
    "text": "Path-sensitive rules over MIR of every operator/runtime function decide the wake-up protocol for all schedules at once: "
            "Pending ⇒ waker registered or delegated (C04-PEND), park atomic with its condition under one guard (C04-PARK), every write to a "
            "parked-on field wakes the parked slots in the same critical section with polarity and wake-if-zero idioms (C04-NOTIFY/EXTCOND), "
            "stack replay of the pending instruction (C04-STACK), atomic scheduler transitions and sibling agreement of the two runtimes "
            "(C04-SCHED), error routing (C04-ERR) and an acyclic interprocedural lock-order graph (C04-LOCK). Tests sample one poll order; "
            "these rules quantify over every path. Counter values and fairness remain undecided. Plus the arrival rule for the 13 countdown barriers (DelayedPartitionCount::dec_by_one): a path that leaves the function successfully without arriving is decided only by the partition's own phase or by plain (immutable) configuration fields, never by shared mutable operator state or data. Declaration rule: every operator poll method takes its partition state by `&mut` and the operator state by `&`, pipeline drivers take `&mut self` (exclusive per-partition access for all schedules is enforced by the borrow checker). And: ExecutionStack raises `finalized[i]` for another operator only behind the result of that operator's finalize call (never when the finalize is merely scheduled).",
    "note": "trusted: rustc MIR; class-hierarchy/RTA call graph (Waker::wake → workspace impl Wake unless the slot only holds external "
            "consumers' wakers); exemption tables in rules/c04.py (each with reason, several with checked side conditions); "
            "closures passed to spawn functions run outside the spawner's locks",
    "technique": "static analysis: MIR critical-section/typestate path rules + interprocedural lock-order graph (rustc_private driver)",
}
