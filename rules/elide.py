"""Cast-elision analysis shared by C18-ELIDE and C12-DECCAST.

Binder / planner code inserts a cast only when the operand's type differs from the type the surrounding expression announces.
Whether the produced arrays really carry the announced type is decided by the comparison that lets a path *skip* the cast: it
has to establish equality of the full type (DataType, or the full type meta: precision *and* scale, unit, element type).

The analysis is path-sensitive over the MIR of one function (no execution): an abstract state is (block, meanings of the
bool temporaries assigned so far, set of equality facts established so far). A switch on a bool temporary whose meaning is a
type comparison adds the fact its edge implies; a bool-returning workspace helper that receives type arguments is summarised
the same way (per return value: the fact sets of its paths) and its summary is used at the call site. `a != b || c != d`
and `!(a == b && c == d)` and a helper `fn needs_cast(..) -> bool` are therefore all understood; what is rejected is a path
that consulted a type comparison, skipped the cast and did not establish full equality."""
from .mir import Fn, switch_edges

FULL_TYPES = ("glaredb_core::arrays::datatype::DataType", "glaredb_core::arrays::datatype::DecimalTypeMeta",
              "glaredb_core::arrays::datatype::TimestampTypeMeta", "glaredb_core::arrays::datatype::ListTypeMeta")
CAST_CTORS = ("glaredb_core::expr::cast", "CastExpr::new", "cast_expr::CastExpr::try_new")
MAX_STATES = 60000


def is_cast_ctor(c):
    return c.name == CAST_CTORS[0] or c.name.endswith(CAST_CTORS[1]) or c.name.endswith(CAST_CTORS[2])


def _last_field(fn, op, b):
    """(adt, field) when the operand is (a copy of) a field of a struct"""
    if op[0] not in ("c", "m"):
        return None
    proj = [p for p in op[1][1] if isinstance(p, list) and p[0] == "f" and len(p) > 2]
    if not proj:
        o = fn.origin(op, at=b)
        pr = o[2] if len(o) > 2 and isinstance(o[2], list) else []
        proj = [p for p in pr if isinstance(p, list) and p[0] == "f" and len(p) > 2]
    if not proj:
        return None
    return proj[-1][2], proj[-1][1]


class Elide:
    def __init__(self, facts):
        self.facts = facts
        self.adt_fields = {}
        for a in facts.records("adt", "glaredb_core"):
            if a["id"] in FULL_TYPES and a["kind"] == "struct":
                self.adt_fields[a["id"]] = [f[0] for f in a["variants"][0]["fields"]]
        self._summ = {}
        self.capped = []

    # ---- meaning of a bool value -------------------------------------------------------------------------------------
    def _cmp_meaning(self, fn, rv, b):
        """('cmp', eq_kind, fact) for a primitive Eq/Ne between the same field of two type structs"""
        if rv[0] != "bin" or rv[1] not in ("Eq", "Ne"):
            return None
        fa, fb = _last_field(fn, rv[2], b), _last_field(fn, rv[3], b)
        if fa and fb and fa == fb and "datatype::" in fa[0]:
            fact = ("field", fa[0], fa[1]) if fa[0] in FULL_TYPES else ("partial", fa[0].rsplit("::", 1)[-1] + "." + fa[1])
            return ("cmp", rv[1] == "Eq", fact)
        return None

    def _call_meaning(self, fn, t, depth):
        callee = t[1]
        name = callee.get("res") or callee.get("def") or ""
        if name.endswith("::eq") or name.endswith("::ne"):
            tys = [a.lstrip("&") for a in (callee.get("res_args") or callee.get("args") or [])][:2]
            if not tys and callee.get("self"):
                tys = [callee["self"]]
            tys = [x for x in tys if "datatype::" in x]
            if not tys:
                return None
            full = all(x in FULL_TYPES for x in tys)
            fact = ("full", tys[0]) if full else ("partial", tys[0].rsplit("::", 1)[-1])
            return ("cmp", name.endswith("::eq"), fact)
        if callee.get("res_local") or callee.get("local"):
            return ("call", name)
        return None

    def summary(self, name, depth=0):
        """{0: set(frozenset(facts)), 1: ...} for a bool-returning workspace fn, or None"""
        if name in self._summ:
            return self._summ[name]
        self._summ[name] = None        # recursion guard
        rec = self.facts.fn(name)
        if rec is None or depth > 3 or rec["locals"][0].strip() != "bool":
            return None
        fn = Fn(rec)
        out = {0: set(), 1: set()}
        for blk, env, fs, _t in self.explore(fn, (), depth + 1):
            m = env.get(0)
            if m is None:
                out[0].add(fs)
                out[1].add(fs)
            elif m[0] == "const":
                out[1 if m[1] else 0].add(fs)
            else:
                for v in (0, 1):
                    for add in self.implied(m, bool(v), depth + 1):
                        out[v].add(fs | add)
        self._summ[name] = out
        return out

    def relevant(self, m, depth=0):
        if m is None or m[0] == "const":
            return False
        if m[0] == "cmp":
            return True
        if m[0] == "not":
            return self.relevant(m[1], depth)
        if m[0] == "call":
            s = self.summary(m[1], depth)
            return bool(s) and any(fs for v in (0, 1) for fs in s[v])
        return False

    def implied(self, m, truth, depth=0):
        """list of fact sets (alternatives) implied by the bool meaning m having value `truth`"""
        if m is None or m[0] == "const":
            return [frozenset()]
        if m[0] == "not":
            return self.implied(m[1], not truth, depth)
        if m[0] == "cmp":
            _, eq_kind, fact = m
            equal = truth if eq_kind else (not truth)
            return [frozenset([fact])] if equal else [frozenset([("ne",) + fact])]
        if m[0] == "call":
            s = self.summary(m[1], depth)
            if not s:
                return [frozenset()]
            return list(s[1 if truth else 0]) or [frozenset()]
        return [frozenset()]

    # ---- path exploration ----------------------------------------------------------------------------------------------
    def explore(self, fn, avoid, depth=0, target=None):
        """every (ret block, env, facts, touched) over the paths entry → normal return that avoid the blocks `avoid` and do not
        leave through `?`/Err. With `target`: `touched` = the path took an edge of a type-comparison switch from which the block
        `target` can no longer be reached (that comparison decided to skip the target)."""
        can_reach = None
        if target is not None:
            can_reach, st_ = set(), [target]
            while st_:
                x = st_.pop()
                if x not in can_reach:
                    can_reach.add(x)
                    st_.extend(fn.pred[x])
        skip_cache = {}

        def skips(b, tgt):
            """from the edge b→tgt the target cannot be reached again without coming back through the comparison in b"""
            if (b, tgt) not in skip_cache:
                skip_cache[(b, tgt)] = b in can_reach and target not in fn.reachable_from(tgt, avoid=[b])
            return skip_cache[(b, tgt)]
        seen = set()
        out = []
        st = [(0, (), frozenset(), False)]
        avoid = set(avoid)
        while st:
            b, envt, fs, touched = st.pop()
            if b in avoid:
                continue
            key = (b, envt, fs, touched)
            if key in seen:
                continue
            seen.add(key)
            if len(seen) > MAX_STATES:
                self.capped.append(fn.id)
                return out
            env = dict(envt)
            blk = fn.bbs[b]
            if blk["cl"]:
                continue
            err = False
            for s_ in blk["s"]:
                if s_[0] != "a":
                    continue
                pl, rv = s_[1], s_[2]
                if pl[1]:
                    continue
                L = pl[0]
                m = None
                if rv[0] == "use" and rv[1][0] == "k" and rv[1][1].get("k") == "int" and rv[1][1].get("ty") == "bool":
                    m = ("const", rv[1][1]["v"])
                elif rv[0] == "use" and rv[1][0] in ("c", "m") and not rv[1][1][1]:
                    m = env.get(rv[1][1][0])
                elif rv[0] == "un" and rv[1] == "Not" and rv[2][0] in ("c", "m") and not rv[2][1][1]:
                    inner = env.get(rv[2][1][0])
                    if inner is not None:
                        m = ("const", 1 - inner[1]) if inner[0] == "const" else ("not", inner)
                elif rv[0] == "bin":
                    m = self._cmp_meaning(fn, rv, b)
                elif rv[0] == "agg" and L == 0 and rv[1][0] == "adt" and rv[1][2] == "Err":
                    err = True
                if m is None:
                    env.pop(L, None)
                else:
                    env[L] = m
            if err:
                continue
            t = blk["t"]
            k = t[0]
            if k == "ret":
                out.append((b, env, fs, touched))
                continue
            if k == "call":
                name = t[1].get("res") or t[1].get("def") or ""
                if name.endswith("from_residual"):
                    continue                      # `?` error exit
                dst = t[3]
                if not dst[1]:
                    m = self._call_meaning(fn, t, depth) if fn.locals[dst[0]].strip() == "bool" else None
                    if m is None:
                        env.pop(dst[0], None)
                    else:
                        env[dst[0]] = m
                if t[4] is not None:
                    st.append((t[4], tuple(sorted(env.items(), key=lambda kv: kv[0])), fs, touched))
                continue
            if k == "switch" and t[1][0] in ("c", "m") and not t[1][1][1] and t[4] == "bool":
                L = t[1][1][0]
                m = env.get(L)
                ne = tuple(sorted(env.items(), key=lambda kv: kv[0]))
                if m is not None and m[0] == "const":
                    tg = [x for v, x in switch_edges(t) if v == m[1]] or [x for v, x in switch_edges(t) if v is None]
                    st.append((tg[0], ne, fs, touched))
                    continue
                rel = self.relevant(m, depth)
                for v, tgt in switch_edges(t):
                    truth = (v != 0) if v is not None else (0 in [x for x, _ in t[2]])
                    if rel:
                        tch = touched or can_reach is None or skips(b, tgt)
                        for add in self.implied(m, truth, depth):
                            st.append((tgt, ne, fs | add, tch))
                    else:
                        st.append((tgt, ne, fs, touched))
                continue
            ne = tuple(sorted(env.items(), key=lambda kv: kv[0]))
            for x in fn.succ_of_term(t):
                if x is not None:
                    st.append((x, ne, fs, touched))
        return out

    def is_full(self, fs):
        if any(f[0] == "full" for f in fs):
            return True
        for adt, flds in self.adt_fields.items():
            if flds and all(("field", adt, f) in fs for f in flds):
                return True
        return False

    def describe(self, fs):
        pos = sorted(f for f in fs if f[0] != "ne")
        if not pos:
            return "nothing about the types being equal"
        return "only " + ", ".join((f"{f[1].rsplit('::', 1)[-1]}.{f[2]}" if f[0] == "field" else f[1].rsplit("::", 1)[-1]) + " equal" for f in pos)

    def sites(self, fn):
        """[(cast Call, [(facts, ok)])] for every cast constructor call that some type comparison can decide to skip: the fact sets
        of the paths on which a comparison decided against the cast"""
        out = []
        for c in fn.calls():
            if not is_cast_ctor(c):
                continue
            paths = [(fs, self.is_full(fs)) for _b, _e, fs, touched in self.explore(fn, [c.bb], target=c.bb) if touched]
            if paths:
                out.append((c, paths))
        return out
