"""C10-CARRY — decoder state that is carried from value to value must also be carried from call to call.

Page decoders are resumable: the column reader asks for `count` values at a time and the engine chooses `count` (batch size,
remaining rows of the row group). A field of the decoder that (1) is updated inside the per-value loop by an operation that
depends on its previous content (truncate/extend/push, `+=`, …), with the update feeding itself around the loop, and (2) is read
inside that loop after the update (its content goes into the emitted value or selects what is decoded next), is *value-to-value
state*: the n-th value depends on what the field held after the (n-1)-th. Re-initialising such a field on the way from the
function entry to the loop makes the first value of every call depend on where the previous call happened to stop."""
from .mir import Fn, operand_locals

KILL_CALLS = ("::clear",)
BUF_THROUGH = ("::deref", "::deref_mut", "::as_slice", "::as_mut_slice", "::as_ref", "::as_mut", "::borrow", "::borrow_mut",
               "::as_slice_mut")


def _self_field(fn, pl, at=None):
    """name of the first-level field of `*self` a place lives in, else None"""
    base, proj = pl[0], pl[1]
    if base != 1 or not proj or proj[0] != "*":
        o = fn.origin(["c", pl], at=at, through_calls=BUF_THROUGH)
        if o[0] != "arg" or o[1] != 1:
            return None
        proj = o[2] if len(o) > 2 else []
    for p in proj:
        if isinstance(p, list) and p[0] == "f":
            return p[1]
    return None


def _depends_on_field(fn, rv, field, at, depth=6):
    """the rvalue is computed from the current content of self.<field>"""
    seen = set()

    def place_hits(pl):
        return _self_field(fn, pl, at) == field

    def walk(x, d):
        if d < 0:
            return False
        if isinstance(x, list):
            if len(x) == 2 and x[0] in ("c", "m") and isinstance(x[1], list) and len(x[1]) == 2 and isinstance(x[1][0], int):
                pl = x[1]
                if place_hits(pl):
                    return True
                l = pl[0]
                if l in seen:
                    return False
                seen.add(l)
                for dd in fn.defs.get(l, []):
                    if dd[0] in ("a", "pa") and walk(dd[3], d - 1):
                        return True
                    if dd[0] in ("call", "pcall") and any(walk(a, d - 1) for a in dd[2].args):
                        return True
                return False
            return any(walk(y, d) for y in x)
        return False
    return walk(rv, depth)


def field_events(fn):
    """{field: [(block, kind, line, what)]}, kind in MUT (update depending on previous content) | KILL | READ"""
    ev = {}
    if fn.argc < 1 or not fn.locals[1].startswith("&mut "):
        return ev
    for b, i, pl, rv, ln in fn.assigns():
        # writes to a self field
        if pl[0] == 1 and pl[1] and pl[1][0] == "*":
            fld = _self_field(fn, pl)
            if fld and len([p for p in pl[1] if isinstance(p, list) and p[0] == "f"]) == 1 and not any(isinstance(p, list) and p[0] == "i" for p in pl[1]):
                kind = "MUT" if _depends_on_field(fn, rv, fld, b) else "KILL"
                ev.setdefault(fld, []).append((b, kind, ln, "assign"))
                continue
        # reads of a self field by value (copies into temporaries that are not just references)
        if rv[0] in ("use", "bin", "un", "cast", "len"):
            for x in (rv[1:] if rv[0] != "use" else [rv[1]]):
                if isinstance(x, list) and len(x) == 2 and x[0] in ("c", "m") and isinstance(x[1], list) and x[1] and x[1][0] == 1:
                    fld = _self_field(fn, x[1])
                    if fld:
                        ev.setdefault(fld, []).append((b, "READ", ln, "copy"))
    for c in fn.calls():
        for k, a in enumerate(c.args):
            if a[0] not in ("c", "m"):
                continue
            ty = fn.locals[a[1][0]].strip() if not a[1][1] else ""
            if not ty.startswith("&"):
                continue
            o = fn.origin(a, at=c.bb, through_calls=BUF_THROUGH)
            if o[0] != "arg" or o[1] != 1:
                continue
            proj = o[2] if len(o) > 2 else []
            flds = [p[1] for p in proj if isinstance(p, list) and p[0] == "f"]
            if not flds:
                continue
            fld = flds[0]
            if ty.startswith("&mut"):
                if any(c.name.endswith(s) for s in KILL_CALLS) and k == 0:
                    kind = "KILL"
                elif any(c.name.endswith(s) for s in BUF_THROUGH):
                    continue
                else:
                    kind = "MUT"
            else:
                if any(c.name.endswith(s) for s in BUF_THROUGH):
                    continue
                kind = "READ"
            ev.setdefault(fld, []).append((c.bb, kind, c.line, c.name.rsplit("::", 1)[-1]))
    return ev


def carry_instances(fn):
    """[{fn, field, mut, read, kills_before_loop}] for the value-to-value state fields of fn"""
    out = []
    ev = field_events(fn)
    for fld, es in ev.items():
        kills = [e for e in es if e[1] == "KILL"]
        kb = [e[0] for e in kills]
        muts = [e for e in es if e[1] == "MUT"]
        reads = [e for e in es if e[1] == "READ"]
        for m in muts:
            # the update feeds itself around a loop (no re-initialisation on the way)
            after = set()
            for s in fn.succ[m[0]]:
                after |= fn.reachable_from(s, avoid=kb)
            if m[0] not in after:
                continue
            # and the content is read inside that loop after the update
            rd = [x for x in reads if x[0] in after and m[0] in fn.reachable_from(x[0], avoid=kb)]
            if not rd:
                continue
            before = [k for k in kills if m[0] in fn.reachable_from(k[0]) and k[0] not in fn.reachable_from(m[0])]
            out.append({"fn": fn.id, "field": fld, "update": f"{m[3]}@{m[2]}", "read_in_loop": f"{rd[0][3]}@{rd[0][2]}",
                        "reinit_before_loop": [f"{k[3]}@{k[2]}" for k in before], "file": fn.rec["file"], "line": m[2]})
            break
    return out
