// Minimal JSON value builder (no external crates available to a rustc_private driver).
use std::fmt::Write;

#[derive(Clone, Debug)]
pub enum J {
    Null,
    Bool(bool),
    Int(i128),
    Str(String),
    Arr(Vec<J>),
    Obj(Vec<(&'static str, J)>),
}

pub fn s<T: Into<String>>(x: T) -> J {
    J::Str(x.into())
}

pub fn esc(out: &mut String, v: &str) {
    out.push('"');
    for c in v.chars() {
        match c {
            '"' => out.push_str("\\\""),
            '\\' => out.push_str("\\\\"),
            '\n' => out.push_str("\\n"),
            '\r' => out.push_str("\\r"),
            '\t' => out.push_str("\\t"),
            c if (c as u32) < 0x20 => {
                let _ = write!(out, "\\u{:04x}", c as u32);
            }
            c => out.push(c),
        }
    }
    out.push('"');
}

impl J {
    pub fn write(&self, out: &mut String) {
        match self {
            J::Null => out.push_str("null"),
            J::Bool(b) => out.push_str(if *b { "true" } else { "false" }),
            J::Int(i) => {
                // keep within what python parses exactly anyway (arbitrary precision)
                let _ = write!(out, "{}", i);
            }
            J::Str(v) => esc(out, v),
            J::Arr(a) => {
                out.push('[');
                for (i, x) in a.iter().enumerate() {
                    if i > 0 {
                        out.push(',');
                    }
                    x.write(out);
                }
                out.push(']');
            }
            J::Obj(o) => {
                out.push('{');
                for (i, (k, x)) in o.iter().enumerate() {
                    if i > 0 {
                        out.push(',');
                    }
                    esc(out, k);
                    out.push(':');
                    x.write(out);
                }
                out.push('}');
            }
        }
    }
    pub fn to_string(&self) -> String {
        let mut o = String::new();
        self.write(&mut o);
        o
    }
}
