// MIR → event CFG facts. The same encoder serves the generic (identity) dump and the
// instantiated dump of the instantiation walk (inst.rs), where types are substituted and
// normalised and callees re-resolved under the fully monomorphic typing environment.
use rustc_hir::def::DefKind;
use rustc_hir::def_id::DefId;
use rustc_middle::mir::{
    AggregateKind, BasicBlock, Body, CastKind, Const, Operand, Place, ProjectionElem, Rvalue,
    StatementKind, TerminatorKind, UnwindAction,
};
use rustc_middle::ty::{self, EarlyBinder, GenericArgsRef, Instance, Ty, TyCtxt, TypingEnv};
use rustc_span::Span;

use crate::json::{s, J};
use crate::Out;

pub fn def_path(tcx: TyCtxt<'_>, did: DefId) -> String {
    let p = tcx.def_path_str(did);
    p
}

pub fn span_file_line(tcx: TyCtxt<'_>, sp: Span) -> (String, i128, i128) {
    let sm = tcx.sess.source_map();
    let sp = sp.source_callsite();
    let lo = sm.lookup_char_pos(sp.lo());
    let hi = sm.lookup_char_pos(sp.hi());
    let name = match &lo.file.name {
        rustc_span::FileName::Real(r) => r
            .local_path()
            .map(|p| p.to_string_lossy().to_string())
            .unwrap_or_else(|| format!("{:?}", r)),
        o => format!("{:?}", o),
    };
    (name, lo.line as i128, hi.line as i128)
}

/// names of the macros whose expansion produced this span, innermost first
pub fn mac_chain(sp: Span) -> Vec<String> {
    let mut out = Vec::new();
    let mut sp = sp;
    let mut n = 0;
    while sp.from_expansion() && n < 8 {
        let ed = sp.ctxt().outer_expn_data();
        match ed.kind {
            rustc_span::ExpnKind::Macro(_, name) => out.push(name.to_string()),
            rustc_span::ExpnKind::Desugaring(d) => out.push(format!("desugar:{:?}", d)),
            _ => {}
        }
        sp = ed.call_site;
        n += 1;
    }
    out
}

pub fn line_of(tcx: TyCtxt<'_>, sp: Span) -> i128 {
    let sm = tcx.sess.source_map();
    sm.lookup_char_pos(sp.source_callsite().lo()).line as i128
}

pub struct Enc<'a, 'tcx> {
    pub tcx: TyCtxt<'tcx>,
    pub body: &'a Body<'tcx>,
    pub env: TypingEnv<'tcx>,
    pub subst: Option<GenericArgsRef<'tcx>>,
    /// callees (def, args) seen — used by the instantiation walk
    pub callees: Vec<(DefId, GenericArgsRef<'tcx>)>,
    /// unevaluated (assoc) consts referenced — the walk enters their bodies for closures (vtables)
    pub consts: Vec<(DefId, GenericArgsRef<'tcx>)>,
    pub depth: usize,
}

impl<'a, 'tcx> Enc<'a, 'tcx> {
    pub fn mono_ty(&self, t: Ty<'tcx>) -> Ty<'tcx> {
        match self.subst {
            None => t,
            Some(a) => self
                .tcx
                .try_instantiate_and_normalize_erasing_regions(a, self.env, EarlyBinder::bind(t))
                .unwrap_or_else(|_| EarlyBinder::bind(t).instantiate(self.tcx, a).skip_norm_wip()),
        }
    }
    pub fn mono_args(&self, t: GenericArgsRef<'tcx>) -> GenericArgsRef<'tcx> {
        match self.subst {
            None => t,
            Some(a) => self
                .tcx
                .try_instantiate_and_normalize_erasing_regions(a, self.env, EarlyBinder::bind(t))
                .unwrap_or_else(|_| EarlyBinder::bind(t).instantiate(self.tcx, a).skip_norm_wip()),
        }
    }

    fn ty_s(&self, t: Ty<'tcx>) -> J {
        s(self.mono_ty(t).to_string())
    }

    pub fn place(&self, p: &Place<'tcx>) -> J {
        let mut proj = Vec::new();
        let mut pty = rustc_middle::mir::PlaceTy::from_ty(self.body.local_decls[p.local].ty);
        for elem in p.projection.iter() {
            match elem {
                ProjectionElem::Deref => proj.push(s("*")),
                ProjectionElem::Field(f, _) => {
                    let base = self.mono_ty(pty.ty);
                    let (adt, name) = match base.kind() {
                        ty::Adt(def, _) => {
                            let vidx = pty.variant_index.unwrap_or(rustc_abi::FIRST_VARIANT);
                            let v = def.variant(vidx);
                            let nm = v
                                .fields
                                .get(f)
                                .map(|fd| fd.name.to_string())
                                .unwrap_or_else(|| f.index().to_string());
                            (def_path(self.tcx, def.did()), nm)
                        }
                        ty::Closure(d, _) | ty::Coroutine(d, _) => {
                            (format!("closure:{}", def_path(self.tcx, *d)), f.index().to_string())
                        }
                        ty::Tuple(_) => ("tuple".to_string(), f.index().to_string()),
                        _ => ("?".to_string(), f.index().to_string()),
                    };
                    proj.push(J::Arr(vec![s("f"), s(name), s(adt)]));
                }
                ProjectionElem::Index(l) => proj.push(J::Arr(vec![s("i"), J::Int(l.as_u32() as i128)])),
                ProjectionElem::ConstantIndex { offset, from_end, .. } => {
                    proj.push(J::Arr(vec![s("ci"), J::Int(offset as i128), J::Bool(from_end)]))
                }
                ProjectionElem::Subslice { .. } => proj.push(J::Arr(vec![s("sub")])),
                ProjectionElem::Downcast(name, vi) => proj.push(J::Arr(vec![
                    s("d"),
                    s(name.map(|n| n.to_string()).unwrap_or_else(|| vi.index().to_string())),
                ])),
                ProjectionElem::OpaqueCast(_) => proj.push(J::Arr(vec![s("oc")])),
                ProjectionElem::UnwrapUnsafeBinder(_) => proj.push(J::Arr(vec![s("ub")])),
            }
            pty = pty.projection_ty(self.tcx, elem);
        }
        J::Arr(vec![J::Int(p.local.as_u32() as i128), J::Arr(proj)])
    }

    fn constant(&mut self, c: &Const<'tcx>) -> J {
        let ty = self.mono_ty(c.ty());
        if let Const::Unevaluated(uv, _) = c {
            if uv.promoted.is_none() {
                let a = self.mono_args(uv.args);
                self.consts.push((uv.def, a));
            } else if let Some(p) = uv.promoted {
                // inline small promoted bodies (e.g. `&Enum::Variant`, `&[]`) so rules can see the value
                if self.depth < 2 && self.tcx.is_mir_available(uv.def) {
                    let pm = self.tcx.promoted_mir(uv.def);
                    if let Some(pb) = pm.get(p) {
                        if pb.basic_blocks.len() <= 4 {
                            let mut e2 = Enc { tcx: self.tcx, body: pb, env: self.env, subst: self.subst, callees: Vec::new(), consts: Vec::new(), depth: self.depth + 1 };
                            let b = e2.blocks();
                            self.callees.extend(e2.callees);
                            self.consts.extend(e2.consts);
                            return J::Obj(vec![("k", s("promoted")), ("ty", s(ty.to_string())), ("body", b)]);
                        }
                    }
                }
            }
        }
        // function items / closures: give def path and generic args
        match ty.kind() {
            ty::FnDef(did, args) => {
                return J::Obj(vec![("k", s("fn")), ("def", s(def_path(self.tcx, *did))), ("ty", s(ty.to_string())), ("args", self.args_j(*args))]);
            }
            _ => {}
        }
        // scalar ints / bools / chars
        let val: Option<i128> = (|| {
            if !(ty.is_integral() || ty.is_bool() || ty.is_char()) {
                return None;
            }
            let c2 = match self.subst {
                None => *c,
                Some(a) => self
                    .tcx
                    .try_instantiate_and_normalize_erasing_regions(a, self.env, EarlyBinder::bind(*c))
                    .ok()?,
            };
            let si = c2.try_eval_scalar_int(self.tcx, self.env)?;
            let size = si.size();
            if ty.is_signed() {
                Some(si.to_int(size))
            } else {
                Some(si.to_uint(size) as i128)
            }
        })();
        match val {
            Some(v) => J::Obj(vec![("k", s("int")), ("v", J::Int(v)), ("ty", s(ty.to_string()))]),
            None => {
                let mut txt = format!("{}", c);
                if txt.len() > 200 {
                    txt.truncate(200);
                }
                J::Obj(vec![("k", s("c")), ("v", s(txt)), ("ty", s(ty.to_string()))])
            }
        }
    }

    fn args_j(&self, args: GenericArgsRef<'tcx>) -> J {
        J::Arr(
            args.iter()
                .filter(|a| a.as_region().is_none())
                .map(|a| s(a.to_string()))
                .collect(),
        )
    }

    pub fn operand(&mut self, o: &Operand<'tcx>) -> J {
        match o {
            Operand::Copy(p) => J::Arr(vec![s("c"), self.place(p)]),
            Operand::Move(p) => J::Arr(vec![s("m"), self.place(p)]),
            Operand::Constant(c) => J::Arr(vec![s("k"), self.constant(&c.const_)]),
            Operand::RuntimeChecks(_) => J::Arr(vec![s("rc")]),
        }
    }

    fn rvalue(&mut self, rv: &Rvalue<'tcx>) -> J {
        match rv {
            Rvalue::Use(o, _) => J::Arr(vec![s("use"), self.operand(o)]),
            Rvalue::Repeat(o, _) => J::Arr(vec![s("repeat"), self.operand(o)]),
            Rvalue::Ref(_, bk, p) => {
                let m = matches!(bk, rustc_middle::mir::BorrowKind::Mut { .. });
                J::Arr(vec![s("ref"), J::Bool(m), self.place(p)])
            }
            Rvalue::ThreadLocalRef(d) => J::Arr(vec![s("tls"), s(def_path(self.tcx, *d))]),
            Rvalue::RawPtr(k, p) => J::Arr(vec![s("raw"), J::Bool(matches!(k, rustc_middle::mir::RawPtrKind::Mut)), self.place(p)]),
            Rvalue::Cast(k, o, t) => {
                let from = o.ty(&self.body.local_decls, self.tcx);
                let ks = match k {
                    CastKind::IntToInt => "IntToInt".to_string(),
                    CastKind::FloatToInt => "FloatToInt".to_string(),
                    CastKind::FloatToFloat => "FloatToFloat".to_string(),
                    CastKind::IntToFloat => "IntToFloat".to_string(),
                    CastKind::PtrToPtr => "PtrToPtr".to_string(),
                    CastKind::Transmute => "Transmute".to_string(),
                    CastKind::PointerCoercion(pc, _) => format!("Coerce:{:?}", pc),
                    o => format!("{:?}", o),
                };
                J::Arr(vec![s("cast"), s(ks), self.operand(o), self.ty_s(from), self.ty_s(*t)])
            }
            Rvalue::BinaryOp(op, ab) => {
                let t = ab.0.ty(&self.body.local_decls, self.tcx);
                J::Arr(vec![s("bin"), s(format!("{:?}", op)), self.operand(&ab.0), self.operand(&ab.1), self.ty_s(t)])
            }
            Rvalue::UnaryOp(op, a) => {
                let t = a.ty(&self.body.local_decls, self.tcx);
                J::Arr(vec![s("un"), s(format!("{:?}", op)), self.operand(a), self.ty_s(t)])
            }
            Rvalue::Discriminant(p) => J::Arr(vec![s("disc"), self.place(p)]),
            Rvalue::Aggregate(k, ops) => {
                let kind = match &**k {
                    AggregateKind::Array(_) => J::Arr(vec![s("array")]),
                    AggregateKind::Tuple => J::Arr(vec![s("tuple")]),
                    AggregateKind::Adt(did, vi, args, _, _) => {
                        let adt = self.tcx.adt_def(*did);
                        let v = adt.variant(*vi);
                        let fields: Vec<J> = v.fields.iter().map(|f| s(f.name.to_string())).collect();
                        J::Arr(vec![s("adt"), s(def_path(self.tcx, *did)), s(v.name.to_string()), J::Arr(fields), self.args_j(self.mono_args(*args))])
                    }
                    AggregateKind::Closure(did, args) => {
                        let a = self.mono_args(*args);
                        self.callees.push((*did, a));
                        J::Arr(vec![s("closure"), s(def_path(self.tcx, *did))])
                    }
                    AggregateKind::Coroutine(did, _) => J::Arr(vec![s("coroutine"), s(def_path(self.tcx, *did))]),
                    AggregateKind::CoroutineClosure(did, _) => J::Arr(vec![s("coroutine_closure"), s(def_path(self.tcx, *did))]),
                    AggregateKind::RawPtr(..) => J::Arr(vec![s("rawptr")]),
                };
                let os: Vec<J> = ops.iter().map(|o| self.operand(o)).collect();
                J::Arr(vec![s("agg"), kind, J::Arr(os)])
            }
            Rvalue::CopyForDeref(p) => J::Arr(vec![s("use"), J::Arr(vec![s("c"), self.place(p)])]),
            Rvalue::WrapUnsafeBinder(o, _) => J::Arr(vec![s("use"), self.operand(o)]),
        }
    }

    /// callee description; also records (def,args) for the instantiation walk
    fn callee(&mut self, func: &Operand<'tcx>) -> J {
        let fty = self.mono_ty(func.ty(&self.body.local_decls, self.tcx));
        match fty.kind() {
            ty::FnDef(did, args) => {
                let did = *did;
                let args = *args;
                let mut o: Vec<(&'static str, J)> = vec![("def", s(def_path(self.tcx, did))), ("args", self.args_j(args))];
                if let Some(tr) = self.tcx.trait_of_assoc(did) {
                    o.push(("trait", s(def_path(self.tcx, tr))));
                    if args.len() > 0 {
                        if let Some(t) = args.get(0).and_then(|a| a.as_type()) {
                            o.push(("self", s(t.to_string())));
                        }
                    }
                } else if let Some(imp) = self.tcx.inherent_impl_of_assoc(did) {
                    let t = self.tcx.type_of(imp).instantiate_identity().skip_norm_wip();
                    o.push(("implself", s(t.to_string())));
                }
                o.push(("local", J::Bool(did.is_local())));
                // resolve
                let dk = self.tcx.def_kind(did);
                if matches!(dk, DefKind::Fn | DefKind::AssocFn) {
                    match Instance::try_resolve(self.tcx, self.env, did, args) {
                        Ok(Some(inst)) => {
                            let rd = inst.def_id();
                            let kind = match inst.def {
                                ty::InstanceKind::Item(_) => "item",
                                ty::InstanceKind::Virtual(..) => "virtual",
                                ty::InstanceKind::Intrinsic(_) => "intrinsic",
                                ty::InstanceKind::ClosureOnceShim { .. } => "closure_once",
                                ty::InstanceKind::FnPtrShim(..) => "fnptr_shim",
                                ty::InstanceKind::DropGlue(..) => "drop_glue",
                                ty::InstanceKind::CloneShim(..) => "clone_shim",
                                _ => "shim",
                            };
                            o.push(("rkind", s(kind)));
                            if rd != did || matches!(inst.def, ty::InstanceKind::Item(_)) {
                                o.push(("res", s(def_path(self.tcx, rd))));
                                o.push(("res_args", self.args_j(inst.args)));
                                o.push(("res_local", J::Bool(rd.is_local())));
                            }
                            if matches!(inst.def, ty::InstanceKind::Item(_) | ty::InstanceKind::ClosureOnceShim { .. }) {
                                self.callees.push((rd, inst.args));
                            }
                        }
                        _ => {
                            o.push(("rkind", s("unresolved")));
                        }
                    }
                }
                J::Obj(o)
            }
            ty::FnPtr(..) => J::Obj(vec![("ptr", self.operand(func)), ("ty", s(fty.to_string()))]),
            _ => J::Obj(vec![("other", self.operand(func)), ("ty", s(fty.to_string()))]),
        }
    }

    fn bb(b: BasicBlock) -> J {
        J::Int(b.as_u32() as i128)
    }
    fn unwind(u: &UnwindAction) -> J {
        match u {
            UnwindAction::Cleanup(b) => Self::bb(*b),
            _ => J::Null,
        }
    }

    pub fn blocks(&mut self) -> J {
        let mut bbs = Vec::new();
        for (_bb, data) in self.body.basic_blocks.iter_enumerated() {
            let mut stmts = Vec::new();
            for st in &data.statements {
                let line = line_of(self.tcx, st.source_info.span);
                match &st.kind {
                    StatementKind::Assign(b) => {
                        let (p, rv) = &**b;
                        stmts.push(J::Arr(vec![s("a"), self.place(p), self.rvalue(rv), J::Int(line)]));
                    }
                    StatementKind::SetDiscriminant { place, variant_index } => {
                        stmts.push(J::Arr(vec![s("sd"), self.place(place), J::Int(variant_index.as_u32() as i128), J::Int(line)]));
                    }
                    StatementKind::StorageDead(l) => {
                        stmts.push(J::Arr(vec![s("dead"), J::Int(l.as_u32() as i128)]));
                    }
                    StatementKind::Intrinsic(i) => {
                        stmts.push(J::Arr(vec![s("intr"), s(format!("{:?}", i)), J::Int(line)]));
                    }
                    _ => {}
                }
            }
            let term = data.terminator();
            let line = line_of(self.tcx, term.source_info.span);
            let exp = term.source_info.span.from_expansion();
            let t = match &term.kind {
                TerminatorKind::Goto { target } => J::Arr(vec![s("goto"), Self::bb(*target)]),
                TerminatorKind::SwitchInt { discr, targets } => {
                    let mut ts = Vec::new();
                    for (v, b) in targets.iter() {
                        ts.push(J::Arr(vec![J::Int(v as i128), Self::bb(b)]));
                    }
                    let dty = discr.ty(&self.body.local_decls, self.tcx);
                    J::Arr(vec![s("switch"), self.operand(discr), J::Arr(ts), Self::bb(targets.otherwise()), self.ty_s(dty), J::Int(line)])
                }
                TerminatorKind::Return => J::Arr(vec![s("ret"), J::Int(line)]),
                TerminatorKind::Unreachable => J::Arr(vec![s("unreachable")]),
                TerminatorKind::UnwindResume => J::Arr(vec![s("resume")]),
                TerminatorKind::UnwindTerminate(_) => J::Arr(vec![s("terminate")]),
                TerminatorKind::Drop { place, target, unwind, .. } => {
                    let pt = place.ty(&self.body.local_decls, self.tcx).ty;
                    J::Arr(vec![s("drop"), self.place(place), Self::bb(*target), Self::unwind(unwind), self.ty_s(pt), J::Int(line)])
                }
                TerminatorKind::Call { func, args, destination, target, unwind, fn_span, .. } => {
                    let f = self.callee(func);
                    let a: Vec<J> = args.iter().map(|x| self.operand(&x.node)).collect();
                    let _ = fn_span;
                    let mut v = vec![
                        s("call"),
                        f,
                        J::Arr(a),
                        self.place(destination),
                        target.map(Self::bb).unwrap_or(J::Null),
                        Self::unwind(unwind),
                        J::Int(line),
                        J::Bool(exp),
                    ];
                    if exp {
                        v.push(J::Arr(mac_chain(term.source_info.span).into_iter().map(s).collect()));
                    }
                    J::Arr(v)
                }
                TerminatorKind::TailCall { func, args, .. } => {
                    let f = self.callee(func);
                    let a: Vec<J> = args.iter().map(|x| self.operand(&x.node)).collect();
                    J::Arr(vec![s("tailcall"), f, J::Arr(a), J::Int(line)])
                }
                TerminatorKind::Assert { cond, expected, msg, target, unwind } => {
                    let kind = {
                        use rustc_middle::mir::AssertKind::*;
                        match &**msg {
                            BoundsCheck { .. } => "BoundsCheck".to_string(),
                            Overflow(op, ..) => format!("Overflow:{:?}", op),
                            OverflowNeg(_) => "OverflowNeg".to_string(),
                            DivisionByZero(_) => "DivisionByZero".to_string(),
                            RemainderByZero(_) => "RemainderByZero".to_string(),
                            MisalignedPointerDereference { .. } => "Misaligned".to_string(),
                            NullPointerDereference => "NullPtr".to_string(),
                            o => {
                                let d = format!("{:?}", o);
                                d.split('(').next().unwrap_or("").to_string()
                            }
                        }
                    };
                    J::Arr(vec![s("assert"), s(kind), self.operand(cond), J::Bool(*expected), Self::bb(*target), Self::unwind(unwind), J::Int(line)])
                }
                TerminatorKind::Yield { resume, drop, .. } => J::Arr(vec![s("yield"), Self::bb(*resume), drop.map(Self::bb).unwrap_or(J::Null)]),
                TerminatorKind::CoroutineDrop => J::Arr(vec![s("codrop")]),
                TerminatorKind::FalseEdge { real_target, .. } => J::Arr(vec![s("goto"), Self::bb(*real_target)]),
                TerminatorKind::FalseUnwind { real_target, .. } => J::Arr(vec![s("goto"), Self::bb(*real_target)]),
                TerminatorKind::InlineAsm { .. } => J::Arr(vec![s("asm")]),
            };
            bbs.push(J::Obj(vec![("s", J::Arr(stmts)), ("t", t), ("cl", J::Bool(data.is_cleanup))]));
        }
        J::Arr(bbs)
    }

    pub fn locals(&self) -> J {
        J::Arr(self.body.local_decls.iter().map(|d| self.ty_s(d.ty)).collect())
    }

    pub fn var_names(&self) -> J {
        let mut v = Vec::new();
        for vdi in &self.body.var_debug_info {
            if let rustc_middle::mir::VarDebugInfoContents::Place(p) = &vdi.value {
                v.push(J::Arr(vec![s(vdi.name.to_string()), self.place(p)]));
            }
        }
        J::Arr(v)
    }
}

pub fn fn_header<'tcx>(tcx: TyCtxt<'tcx>, krate: &str, did: DefId) -> Vec<(&'static str, J)> {
    let dk = tcx.def_kind(did);
    let (file, line, endline) = span_file_line(tcx, tcx.def_span(did));
    let mut o: Vec<(&'static str, J)> = vec![
        ("id", s(def_path(tcx, did))),
        ("krate", s(krate)),
        ("file", s(file)),
        ("line", J::Int(line)),
        ("endline", J::Int(endline)),
        ("dk", s(format!("{:?}", dk))),
        ("name", s(tcx.opt_item_name(did).map(|n| n.to_string()).unwrap_or_default())),
    ];
    if matches!(dk, DefKind::Fn | DefKind::AssocFn) {
        let sig = tcx.fn_sig(did).skip_binder();
        o.push(("unsafe", J::Bool(sig.safety().is_unsafe())));
        o.push(("vis", s(format!("{:?}", tcx.visibility(did)))));
        o.push(("ngen", J::Int(tcx.generics_of(did).count() as i128)));
    }
    if matches!(dk, DefKind::Closure) {
        let parent = tcx.typeck_root_def_id(did);
        o.push(("root", s(def_path(tcx, parent))));
        o.push(("parent", s(def_path(tcx, tcx.parent(did)))));
    }
    if matches!(dk, DefKind::AssocFn) {
        let parent = tcx.parent(did);
        match tcx.def_kind(parent) {
            DefKind::Impl { of_trait } => {
                let st = tcx.type_of(parent).instantiate_identity().skip_norm_wip();
                o.push(("self_ty", s(st.to_string())));
                if let ty::Adt(ad, _) = st.kind() {
                    o.push(("self_adt", s(def_path(tcx, ad.did()))));
                }
                if of_trait {
                    let tr = tcx.impl_trait_ref(parent).skip_binder();
                    o.push(("impl_trait", s(def_path(tcx, tr.def_id))));
                    o.push(("impl_trait_ref", s(tr.to_string())));
                    if let Some(ti) = tcx.trait_item_of(did) {
                        o.push(("trait_item", s(def_path(tcx, ti))));
                    }
                }
            }
            DefKind::Trait => {
                o.push(("in_trait", s(def_path(tcx, parent))));
            }
            _ => {}
        }
    }
    o
}

pub fn dump_all<'tcx>(tcx: TyCtxt<'tcx>, krate: &str, out: &mut Out) {
    let mut n = 0;
    for ldid in tcx.hir_body_owners() {
        let did = ldid.to_def_id();
        let dk = tcx.def_kind(did);
        if !matches!(dk, DefKind::Fn | DefKind::AssocFn | DefKind::Closure) {
            continue;
        }
        if !tcx.is_mir_available(did) {
            continue;
        }
        let body = tcx.optimized_mir(did);
        let env = TypingEnv::post_analysis(tcx, did);
        let mut enc = Enc { tcx, body, env, subst: None, callees: Vec::new(), consts: Vec::new(), depth: 0 };
        let mut o = fn_header(tcx, krate, did);
        o.insert(0, ("t", s("fn")));
        o.push(("argc", J::Int(body.arg_count as i128)));
        o.push(("coroutine", J::Bool(tcx.is_coroutine(did))));
        o.push(("locals", enc.locals()));
        o.push(("vars", enc.var_names()));
        o.push(("bbs", enc.blocks()));
        out.line(&J::Obj(o).to_string());
        n += 1;
    }
    out.line(&J::Obj(vec![("t", s("meta")), ("krate", s(krate)), ("fns", J::Int(n))]).to_string());
}
