// gdbfacts: rustc_private driver that dumps the resolved program (MIR CFG events, HIR match
// tables, const registry expressions, bounded instantiation walk) as JSON-lines facts.
// Used as RUSTC_WORKSPACE_WRAPPER under `cargo +nightly check`. No GlareDB code is executed.
#![feature(rustc_private)]
#![allow(clippy::all)]

extern crate rustc_abi;
extern crate rustc_ast;
extern crate rustc_driver;
extern crate rustc_hir;
extern crate rustc_interface;
extern crate rustc_middle;
extern crate rustc_span;

mod hirfacts;
mod inst;
mod json;
mod mirfacts;

use std::io::Write;

use rustc_driver::{Callbacks, Compilation};
use rustc_interface::interface::Compiler;
use rustc_middle::ty::TyCtxt;

pub struct Out {
    pub buf: Vec<u8>,
}

impl Out {
    pub fn line(&mut self, s: &str) {
        self.buf.extend_from_slice(s.as_bytes());
        self.buf.push(b'\n');
    }
}

struct Cb {
    out_dir: String,
}

impl Callbacks for Cb {
    fn after_analysis<'tcx>(&mut self, _c: &Compiler, tcx: TyCtxt<'tcx>) -> Compilation {
        let krate = tcx.crate_name(rustc_span::def_id::LOCAL_CRATE).to_string();
        let mut out = Out { buf: Vec::with_capacity(1 << 24) };
        rustc_middle::ty::print::with_no_trimmed_paths!(rustc_middle::ty::print::with_resolve_crate_name!({
            mirfacts::dump_all(tcx, &krate, &mut out);
            hirfacts::dump_all(tcx, &krate, &mut out);
            inst::dump_all(tcx, &krate, &mut out);
        }));
        let kind = if tcx.crate_types().iter().any(|t| matches!(t, rustc_session_crate_type::Executable)) { "bin" } else { "lib" };
        let pkg = std::env::var("CARGO_PKG_NAME").unwrap_or_default().replace('-', "_");
        let path = format!("{}/{}-{}-{}-{}.jsonl", self.out_dir, krate, kind, pkg, std::process::id());
        let tmp = format!("{}.tmp", path);
        let mut f = std::fs::File::create(&tmp).expect("create fact file");
        f.write_all(&out.buf).expect("write facts");
        drop(f);
        std::fs::rename(&tmp, &path).expect("rename facts");
        Compilation::Continue
    }
}

use rustc_session::config::CrateType as rustc_session_crate_type;
extern crate rustc_session;

fn main() {
    let mut args: Vec<String> = std::env::args().collect();
    // As RUSTC_WORKSPACE_WRAPPER: argv[1] is the real rustc path.
    if args.len() > 1 && (args[1].ends_with("rustc") || args[1].contains("/rustc")) {
        args.remove(1);
    }
    let out_dir = std::env::var("GDBFACTS_OUT").unwrap_or_default();
    let only = std::env::var("GDBFACTS_CRATES").unwrap_or_default();
    let crate_name = args
        .iter()
        .position(|a| a == "--crate-name")
        .and_then(|i| args.get(i + 1))
        .cloned()
        .unwrap_or_default();
    let is_probe = args.iter().any(|a| a == "-vV" || a == "--version" || a.starts_with("--print"));
    let wanted = !out_dir.is_empty()
        && !is_probe
        && !crate_name.is_empty()
        && crate_name != "build_script_build"
        && (only.is_empty() || only.split(',').any(|c| c == crate_name));
    if wanted {
        let mut cb = Cb { out_dir };
        rustc_driver::run_compiler(&args, &mut cb);
    } else {
        struct Nop;
        impl Callbacks for Nop {}
        rustc_driver::run_compiler(&args, &mut Nop);
    }
}
