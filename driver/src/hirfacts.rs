// HIR facts: match tables over workspace enums, const-item expression trees (function
// registries), ADT and impl tables. All paths/types are resolved through typeck results.
use rustc_hir as hir;
use rustc_hir::def::{DefKind, Res};
use rustc_hir::def_id::{DefId, LocalDefId};
use rustc_hir::intravisit::{self, Visitor};
use rustc_middle::ty::{self, TyCtxt, TypeckResults};

use crate::json::{s, J};
use crate::mirfacts::{def_path, line_of, span_file_line};
use crate::Out;

fn is_workspace_crate(tcx: TyCtxt<'_>, did: DefId) -> bool {
    let n = tcx.crate_name(did.krate).to_string();
    n.starts_with("glaredb") || n == "harness" || n == "logutil" || n == "docgen"
}

pub struct Ser<'a, 'tcx> {
    pub tcx: TyCtxt<'tcx>,
    pub tr: &'a TypeckResults<'tcx>,
}

impl<'a, 'tcx> Ser<'a, 'tcx> {
    fn res_j(&self, res: Res) -> J {
        match res {
            Res::Def(dk, did) => J::Obj(vec![("k", s("path")), ("dk", s(format!("{:?}", dk))), ("def", s(def_path(self.tcx, did)))]),
            Res::Local(id) => J::Obj(vec![("k", s("local")), ("name", s(self.tcx.hir_name(id).to_string()))]),
            Res::SelfCtor(d) | Res::SelfTyAlias { alias_to: d, .. } => J::Obj(vec![("k", s("selfctor")), ("def", s(def_path(self.tcx, d)))]),
            o => J::Obj(vec![("k", s("res")), ("v", s(format!("{:?}", o)))]),
        }
    }

    pub fn expr(&self, e: &hir::Expr<'tcx>, depth: usize) -> J {
        if depth == 0 {
            return J::Obj(vec![("k", s("..."))]);
        }
        let d = depth - 1;
        let ty = self.tr.expr_ty_opt(e).map(|t| t.to_string()).unwrap_or_default();
        let mut o: Vec<(&'static str, J)> = Vec::new();
        match &e.kind {
            hir::ExprKind::Call(f, args) => {
                o.push(("k", s("call")));
                if let hir::ExprKind::Path(qp) = &f.kind {
                    let res = self.tr.qpath_res(qp, f.hir_id);
                    if let Res::Def(dk, did) = res {
                        o.push(("f", s(def_path(self.tcx, did))));
                        o.push(("fdk", s(format!("{:?}", dk))));
                        let na = self.tr.node_args(f.hir_id);
                        o.push(("fargs", J::Arr(na.iter().filter(|a| a.as_region().is_none()).map(|a| s(a.to_string())).collect())));
                    } else {
                        o.push(("fe", self.res_j(res)));
                    }
                } else {
                    o.push(("fe", self.expr(f, d)));
                }
                o.push(("a", J::Arr(args.iter().map(|a| self.expr(a, d)).collect())));
            }
            hir::ExprKind::MethodCall(seg, recv, args, _) => {
                o.push(("k", s("mcall")));
                o.push(("name", s(seg.ident.to_string())));
                if let Some(did) = self.tr.type_dependent_def_id(e.hir_id) {
                    o.push(("f", s(def_path(self.tcx, did))));
                    let na = self.tr.node_args(e.hir_id);
                    o.push(("fargs", J::Arr(na.iter().filter(|a| a.as_region().is_none()).map(|a| s(a.to_string())).collect())));
                }
                o.push(("recv", self.expr(recv, d)));
                o.push(("a", J::Arr(args.iter().map(|a| self.expr(a, d)).collect())));
            }
            hir::ExprKind::Path(qp) => {
                let res = self.tr.qpath_res(qp, e.hir_id);
                if let J::Obj(v) = self.res_j(res) {
                    o.extend(v);
                }
                if let Res::Def(DefKind::AssocConst { .. } | DefKind::Const { .. } | DefKind::Fn | DefKind::AssocFn, _) = res {
                    let na = self.tr.node_args(e.hir_id);
                    o.push(("pargs", J::Arr(na.iter().filter(|a| a.as_region().is_none()).map(|a| s(a.to_string())).collect())));
                }
            }
            hir::ExprKind::Struct(qp, fields, tail) => {
                o.push(("k", s("struct")));
                let res = self.tr.qpath_res(qp, e.hir_id);
                if let Res::Def(_, did) = res {
                    o.push(("def", s(def_path(self.tcx, did))));
                }
                o.push(("fields", J::Arr(fields.iter().map(|f| J::Arr(vec![s(f.ident.to_string()), self.expr(f.expr, d)])).collect())));
                if let hir::StructTailExpr::Base(b) = tail {
                    o.push(("base", self.expr(b, d)));
                }
            }
            hir::ExprKind::AddrOf(_, m, inner) => {
                o.push(("k", s("ref")));
                o.push(("mut", J::Bool(m.is_mut())));
                o.push(("e", self.expr(inner, d)));
            }
            hir::ExprKind::Array(es) => {
                o.push(("k", s("array")));
                o.push(("e", J::Arr(es.iter().map(|x| self.expr(x, d)).collect())));
            }
            hir::ExprKind::Tup(es) => {
                o.push(("k", s("tup")));
                o.push(("e", J::Arr(es.iter().map(|x| self.expr(x, d)).collect())));
            }
            hir::ExprKind::Lit(l) => {
                o.push(("k", s("lit")));
                let v = match &l.node {
                    rustc_ast::LitKind::Str(sym, _) => J::Str(sym.to_string()),
                    rustc_ast::LitKind::Int(v, _) => J::Int(v.get() as i128),
                    rustc_ast::LitKind::Bool(b) => J::Bool(*b),
                    rustc_ast::LitKind::Char(c) => J::Str(c.to_string()),
                    rustc_ast::LitKind::Byte(b) => J::Int(*b as i128),
                    o => J::Str(format!("{:?}", o)),
                };
                o.push(("v", v));
            }
            hir::ExprKind::Unary(op, x) => {
                o.push(("k", s("un")));
                o.push(("op", s(format!("{:?}", op))));
                o.push(("e", self.expr(x, d)));
            }
            hir::ExprKind::Binary(op, l, r) => {
                o.push(("k", s("bin")));
                o.push(("op", s(format!("{:?}", op.node))));
                o.push(("l", self.expr(l, d)));
                o.push(("r", self.expr(r, d)));
            }
            hir::ExprKind::Cast(x, _) => {
                o.push(("k", s("cast")));
                o.push(("e", self.expr(x, d)));
            }
            hir::ExprKind::DropTemps(x) | hir::ExprKind::Use(x, _) | hir::ExprKind::Type(x, _) => return self.expr(x, depth),
            hir::ExprKind::Block(b, _) => {
                o.push(("k", s("block")));
                let mut st = Vec::new();
                for stmt in b.stmts {
                    match &stmt.kind {
                        hir::StmtKind::Let(l) => {
                            let mut lo: Vec<(&'static str, J)> = vec![("k", s("let"))];
                            if let Some(i) = l.init {
                                lo.push(("init", self.expr(i, d)));
                            }
                            if let Some(els) = l.els {
                                lo.push(("els", self.block(els, d)));
                            }
                            st.push(J::Obj(lo));
                        }
                        hir::StmtKind::Expr(x) | hir::StmtKind::Semi(x) => st.push(self.expr(x, d)),
                        hir::StmtKind::Item(_) => {}
                    }
                }
                o.push(("stmts", J::Arr(st)));
                if let Some(x) = b.expr {
                    o.push(("e", self.expr(x, d)));
                }
            }
            hir::ExprKind::If(c, t, el) => {
                o.push(("k", s("if")));
                o.push(("c", self.expr(c, d)));
                o.push(("t", self.expr(t, d)));
                if let Some(x) = el {
                    o.push(("el", self.expr(x, d)));
                }
            }
            hir::ExprKind::Let(l) => {
                o.push(("k", s("letexpr")));
                o.push(("pat", self.pat(l.pat)));
                o.push(("init", self.expr(l.init, d)));
            }
            hir::ExprKind::Match(sc, arms, src) => {
                o.push(("k", s("match")));
                o.push(("src", s(format!("{:?}", src))));
                o.push(("scrut", self.expr(sc, d)));
                o.push((
                    "arms",
                    J::Arr(
                        arms.iter()
                            .map(|a| {
                                let mut ao: Vec<(&'static str, J)> = vec![("pat", self.pat(a.pat))];
                                if let Some(g) = a.guard {
                                    ao.push(("guard", self.expr(g, d)));
                                }
                                ao.push(("body", self.expr(a.body, d)));
                                J::Obj(ao)
                            })
                            .collect(),
                    ),
                ));
            }
            hir::ExprKind::Closure(c) => {
                o.push(("k", s("closure")));
                o.push(("def", s(def_path(self.tcx, c.def_id.to_def_id()))));
            }
            hir::ExprKind::Field(x, id) => {
                o.push(("k", s("field")));
                o.push(("name", s(id.to_string())));
                o.push(("e", self.expr(x, d)));
            }
            hir::ExprKind::Index(a, b, _) => {
                o.push(("k", s("index")));
                o.push(("e", self.expr(a, d)));
                o.push(("i", self.expr(b, d)));
            }
            hir::ExprKind::Assign(l, r, _) => {
                o.push(("k", s("assign")));
                o.push(("l", self.expr(l, d)));
                o.push(("r", self.expr(r, d)));
            }
            hir::ExprKind::AssignOp(op, l, r) => {
                o.push(("k", s("assignop")));
                o.push(("op", s(format!("{:?}", op.node))));
                o.push(("l", self.expr(l, d)));
                o.push(("r", self.expr(r, d)));
            }
            hir::ExprKind::Ret(x) => {
                o.push(("k", s("ret")));
                if let Some(x) = x {
                    o.push(("e", self.expr(x, d)));
                }
            }
            hir::ExprKind::Break(_, x) => {
                o.push(("k", s("break")));
                if let Some(x) = x {
                    o.push(("e", self.expr(x, d)));
                }
            }
            hir::ExprKind::Continue(_) => o.push(("k", s("continue"))),
            hir::ExprKind::Loop(b, _, src, _) => {
                o.push(("k", s("loop")));
                o.push(("src", s(format!("{:?}", src))));
                o.push(("body", self.block(b, d)));
            }
            hir::ExprKind::Repeat(x, _) => {
                o.push(("k", s("repeat")));
                o.push(("e", self.expr(x, d)));
            }
            hir::ExprKind::Yield(x, _) => {
                o.push(("k", s("yield")));
                o.push(("e", self.expr(x, d)));
            }
            hir::ExprKind::ConstBlock(_) => o.push(("k", s("constblock"))),
            _ => o.push(("k", s("other"))),
        }
        o.push(("ty", s(ty)));
        o.push(("ln", J::Int(line_of(self.tcx, e.span))));
        if e.span.from_expansion() {
            // name of the outermost macro this expression comes from
            let m = e.span.ctxt().outer_expn_data();
            o.push(("mac", s(m.kind.descr())));
        }
        J::Obj(o)
    }

    fn block(&self, b: &'tcx hir::Block<'tcx>, depth: usize) -> J {
        let fake = hir::Expr { hir_id: b.hir_id, kind: hir::ExprKind::Block(b, None), span: b.span };
        // expr_ty_opt on a block hir id is fine (may be None)
        self.expr(&fake, depth + 1)
    }

    fn pat(&self, p: &hir::Pat<'tcx>) -> J {
        match &p.kind {
            hir::PatKind::Wild | hir::PatKind::Missing => J::Obj(vec![("k", s("_"))]),
            hir::PatKind::Binding(_, _, id, sub) => match sub {
                Some(sp) => self.pat(sp),
                None => J::Obj(vec![("k", s("_")), ("bind", s(id.to_string()))]),
            },
            hir::PatKind::Struct(qp, fields, _) => {
                let res = self.tr.qpath_res(qp, p.hir_id);
                let mut o = vec![("k", s("v"))];
                if let Res::Def(_, did) = res {
                    o.push(("def", s(def_path(self.tcx, did))));
                }
                o.push(("sub", J::Arr(fields.iter().map(|f| J::Arr(vec![s(f.ident.to_string()), self.pat(f.pat)])).collect())));
                J::Obj(o)
            }
            hir::PatKind::TupleStruct(qp, ps, _) => {
                let res = self.tr.qpath_res(qp, p.hir_id);
                let mut o = vec![("k", s("v"))];
                if let Res::Def(_, did) = res {
                    o.push(("def", s(def_path(self.tcx, did))));
                }
                o.push(("sub", J::Arr(ps.iter().map(|x| self.pat(x)).collect())));
                J::Obj(o)
            }
            hir::PatKind::Expr(pe) => match &pe.kind {
                hir::PatExprKind::Path(qp) => {
                    let res = self.tr.qpath_res(qp, pe.hir_id);
                    let mut o = vec![("k", s("v"))];
                    if let Res::Def(_, did) = res {
                        o.push(("def", s(def_path(self.tcx, did))));
                    }
                    J::Obj(o)
                }
                hir::PatExprKind::Lit { lit, negated } => {
                    let v = match &lit.node {
                        rustc_ast::LitKind::Str(sym, _) => J::Str(sym.to_string()),
                        rustc_ast::LitKind::Int(v, _) => J::Int(if *negated { -(v.get() as i128) } else { v.get() as i128 }),
                        rustc_ast::LitKind::Bool(b) => J::Bool(*b),
                        rustc_ast::LitKind::Char(c) => J::Str(c.to_string()),
                        rustc_ast::LitKind::Byte(b) => J::Int(*b as i128),
                        o => J::Str(format!("{:?}", o)),
                    };
                    J::Obj(vec![("k", s("lit")), ("v", v)])
                }
            },
            hir::PatKind::Or(ps) => J::Obj(vec![("k", s("or")), ("sub", J::Arr(ps.iter().map(|x| self.pat(x)).collect()))]),
            hir::PatKind::Tuple(ps, _) => J::Obj(vec![("k", s("tup")), ("sub", J::Arr(ps.iter().map(|x| self.pat(x)).collect()))]),
            hir::PatKind::Box(x) | hir::PatKind::Deref(x) | hir::PatKind::Ref(x, _, _) => self.pat(x),
            hir::PatKind::Guard(x, _) => self.pat(x),
            hir::PatKind::Range(..) => J::Obj(vec![("k", s("range"))]),
            hir::PatKind::Slice(..) => J::Obj(vec![("k", s("slice"))]),
            _ => J::Obj(vec![("k", s("other"))]),
        }
    }
}

struct MatchVisitor<'a, 'tcx> {
    tcx: TyCtxt<'tcx>,
    tr: &'a TypeckResults<'tcx>,
    owner: String,
    krate: &'a str,
    out: &'a mut Out,
    ord: usize,
}

impl<'a, 'tcx> Visitor<'tcx> for MatchVisitor<'a, 'tcx> {
    fn visit_expr(&mut self, e: &'tcx hir::Expr<'tcx>) {
        if let hir::ExprKind::Match(sc, arms, src) = &e.kind {
            if let Some(t) = self.tr.expr_ty_adjusted_opt(sc) {
                let mut t = t;
                while let ty::Ref(_, inner, _) = t.kind() {
                    t = *inner;
                }
                // tuple scrutinee: take each component adt
                let mut adts: Vec<DefId> = Vec::new();
                match t.kind() {
                    ty::Adt(ad, _) if ad.is_enum() => adts.push(ad.did()),
                    ty::Tuple(ts) => {
                        for x in ts.iter() {
                            let mut x = x;
                            while let ty::Ref(_, inner, _) = x.kind() {
                                x = *inner;
                            }
                            if let ty::Adt(ad, _) = x.kind() {
                                if ad.is_enum() {
                                    adts.push(ad.did());
                                }
                            }
                        }
                    }
                    _ => {}
                }
                if adts.iter().any(|d| is_workspace_crate(self.tcx, *d)) {
                    let ser = Ser { tcx: self.tcx, tr: self.tr };
                    let (file, line, _) = span_file_line(self.tcx, e.span);
                    let arms_j: Vec<J> = arms
                        .iter()
                        .map(|a| {
                            let mut ao: Vec<(&'static str, J)> = vec![("pat", ser.pat(a.pat))];
                            if let Some(g) = a.guard {
                                ao.push(("guard", ser.expr(g, 6)));
                            }
                            ao.push(("body", ser.expr(a.body, 9)));
                            ao.push(("ln", J::Int(line_of(self.tcx, a.span))));
                            J::Obj(ao)
                        })
                        .collect();
                    let o = J::Obj(vec![
                        ("t", s("match")),
                        ("krate", s(self.krate)),
                        ("fn", s(self.owner.clone())),
                        ("ord", J::Int(self.ord as i128)),
                        ("file", s(file)),
                        ("line", J::Int(line)),
                        ("src", s(format!("{:?}", src))),
                        ("mac", J::Bool(e.span.from_expansion())),
                        ("enums", J::Arr(adts.iter().map(|d| s(def_path(self.tcx, *d))).collect())),
                        ("scrut", ser.expr(sc, 5)),
                        ("arms", J::Arr(arms_j)),
                    ]);
                    self.out.line(&o.to_string());
                    self.ord += 1;
                }
            }
        }
        intravisit::walk_expr(self, e);
    }
}

pub fn dump_all<'tcx>(tcx: TyCtxt<'tcx>, krate: &str, out: &mut Out) {
    // 1. match tables + const trees + fn body trees for selected functions
    let body_fns = std::env::var("GDBFACTS_HIRFNS").unwrap_or_default();
    let body_fns: Vec<&str> = body_fns.split(',').filter(|x| !x.is_empty()).collect();
    for ldid in tcx.hir_body_owners() {
        let did = ldid.to_def_id();
        let dk = tcx.def_kind(did);
        match dk {
            DefKind::Fn | DefKind::AssocFn | DefKind::Closure => {
                if tcx.is_typeck_child(did) && !matches!(dk, DefKind::Closure) {
                    continue;
                }
                let tr = tcx.typeck(ldid);
                let body = tcx.hir_body_owned_by(ldid);
                let owner = def_path(tcx, did);
                {
                    let mut v = MatchVisitor { tcx, tr, owner: owner.clone(), krate, out, ord: 0 };
                    // closures are body owners themselves; walk_expr does not enter nested bodies
                    v.visit_expr(body.value);
                }
                if body_fns.iter().any(|p| owner.ends_with(p)) {
                    let ser = Ser { tcx, tr };
                    let o = J::Obj(vec![("t", s("hirfn")), ("krate", s(krate)), ("id", s(owner)), ("e", ser.expr(body.value, 40))]);
                    out.line(&o.to_string());
                }
            }
            DefKind::Const { .. } | DefKind::AssocConst { .. } | DefKind::Static { .. } => {
                let tr = tcx.typeck(ldid);
                let body = tcx.hir_body_owned_by(ldid);
                let ser = Ser { tcx, tr };
                let ty = tcx.type_of(did).instantiate_identity().skip_norm_wip().to_string();
                let (file, line, _) = span_file_line(tcx, tcx.def_span(did));
                let mut o = vec![
                    ("t", s("const")),
                    ("krate", s(krate)),
                    ("id", s(def_path(tcx, did))),
                    ("name", s(tcx.opt_item_name(did).map(|n| n.to_string()).unwrap_or_default())),
                    ("dk", s(format!("{:?}", dk))),
                    ("ty", s(ty)),
                    ("file", s(file)),
                    ("line", J::Int(line)),
                ];
                if matches!(dk, DefKind::AssocConst { .. }) {
                    let parent = tcx.parent(did);
                    if let DefKind::Impl { of_trait } = tcx.def_kind(parent) {
                        o.push(("self_ty", s(tcx.type_of(parent).instantiate_identity().skip_norm_wip().to_string())));
                        if of_trait {
                            o.push(("impl_trait", s(def_path(tcx, tcx.impl_trait_ref(parent).skip_binder().def_id))));
                        }
                    }
                }
                o.push(("e", ser.expr(body.value, 24)));
                out.line(&J::Obj(o).to_string());
            }
            _ => {}
        }
    }
    // 2. ADTs and impls
    for id in tcx.hir_free_items() {
        let did = id.owner_id.to_def_id();
        match tcx.def_kind(did) {
            DefKind::Struct | DefKind::Enum | DefKind::Union => dump_adt(tcx, krate, did, out),
            DefKind::Impl { of_trait } => dump_impl(tcx, krate, id.owner_id.def_id, of_trait, out),
            _ => {}
        }
    }
}

fn dump_adt<'tcx>(tcx: TyCtxt<'tcx>, krate: &str, did: DefId, out: &mut Out) {
    let ad = tcx.adt_def(did);
    let (file, line, _) = span_file_line(tcx, tcx.def_span(did));
    let mut variants = Vec::new();
    for (vi, v) in ad.variants().iter_enumerated() {
        let fields: Vec<J> = v
            .fields
            .iter()
            .map(|f| J::Arr(vec![s(f.name.to_string()), s(tcx.type_of(f.did).instantiate_identity().skip_norm_wip().to_string()), s(format!("{:?}", f.vis))]))
            .collect();
        let discr = if ad.is_enum() { ad.discriminant_for_variant(tcx, vi).val as i128 } else { 0 };
        variants.push(J::Obj(vec![("name", s(v.name.to_string())), ("discr", J::Int(discr)), ("fields", J::Arr(fields))]));
    }
    let o = J::Obj(vec![
        ("t", s("adt")),
        ("krate", s(krate)),
        ("id", s(def_path(tcx, did))),
        ("kind", s(if ad.is_enum() { "enum" } else if ad.is_union() { "union" } else { "struct" })),
        ("file", s(file)),
        ("line", J::Int(line)),
        ("vis", s(format!("{:?}", tcx.visibility(did)))),
        ("variants", J::Arr(variants)),
    ]);
    out.line(&o.to_string());
}

fn dump_impl<'tcx>(tcx: TyCtxt<'tcx>, krate: &str, ldid: LocalDefId, of_trait: bool, out: &mut Out) {
    let did = ldid.to_def_id();
    let st = tcx.type_of(did).instantiate_identity().skip_norm_wip();
    let (file, line, _) = span_file_line(tcx, tcx.def_span(did));
    let mut o = vec![("t", s("impl")), ("krate", s(krate)), ("self_ty", s(st.to_string())), ("file", s(file)), ("line", J::Int(line))];
    if let ty::Adt(ad, _) = st.kind() {
        o.push(("self_adt", s(def_path(tcx, ad.did()))));
    }
    if of_trait {
        let tr = tcx.impl_trait_ref(did).skip_binder();
        o.push(("trait", s(def_path(tcx, tr.def_id))));
        o.push(("trait_ref", s(tr.to_string())));
        o.push(("unsafe", J::Bool(tcx.trait_def(tr.def_id).safety.is_unsafe())));
    }
    let mut items = Vec::new();
    for it in tcx.associated_items(did).in_definition_order() {
        let mut io = vec![("name", s(it.opt_name().map(|n| n.to_string()).unwrap_or_default())), ("kind", s(format!("{:?}", it.tag()))), ("def", s(def_path(tcx, it.def_id)))];
        if it.is_type() {
            io.push(("ty", s(tcx.type_of(it.def_id).instantiate_identity().skip_norm_wip().to_string())));
        }
        items.push(J::Obj(io));
    }
    o.push(("items", J::Arr(items)));
    out.line(&J::Obj(o).to_string());
}
