// Bounded instantiation walk from function-registry rows: the generic MIR of every body reached
// from a row's implementation methods is re-read under the row's type substitution, callees are
// re-resolved under the fully monomorphic typing environment. No mono-item collection needed.
use std::collections::{HashMap, HashSet, VecDeque};

use rustc_hir as hir;
use rustc_hir::def::{DefKind, Res};
use rustc_hir::def_id::DefId;
use rustc_hir::intravisit::{self, Visitor};
use rustc_middle::ty::{self, GenericArgs, GenericArgsRef, Instance, Ty, TyCtxt, TypeVisitableExt, TypeckResults, TypingEnv};

use crate::hirfacts::Ser;
use crate::json::{s, J};
use crate::mirfacts::{def_path, fn_header, span_file_line, Enc};
use crate::Out;

fn is_ws(tcx: TyCtxt<'_>, did: DefId) -> bool {
    let n = tcx.crate_name(did.krate).to_string();
    n.starts_with("glaredb")
}

pub fn inst_key<'tcx>(tcx: TyCtxt<'tcx>, did: DefId, args: GenericArgsRef<'tcx>) -> String {
    let a: Vec<String> = args.iter().filter(|a| a.as_region().is_none()).map(|a| a.to_string()).collect();
    format!("{}<{}>", def_path(tcx, did), a.join(", "))
}

struct RowFinder<'a, 'tcx> {
    tcx: TyCtxt<'tcx>,
    tr: &'a TypeckResults<'tcx>,
    rows: Vec<(DefId, Ty<'tcx>, &'tcx hir::Expr<'tcx>, &'tcx [hir::Expr<'tcx>])>,
}

const CTOR_ADTS: &[&str] = &["RawScalarFunction", "RawAggregateFunction", "RawCastFunction", "RawTableFunction"];

impl<'a, 'tcx> Visitor<'tcx> for RowFinder<'a, 'tcx> {
    fn visit_expr(&mut self, e: &'tcx hir::Expr<'tcx>) {
        if let hir::ExprKind::Call(f, args) = &e.kind {
            if let hir::ExprKind::Path(qp) = &f.kind {
                if let Res::Def(DefKind::AssocFn, did) = self.tr.qpath_res(qp, f.hir_id) {
                    if let Some(imp) = self.tcx.inherent_impl_of_assoc(did) {
                        let st = self.tcx.type_of(imp).instantiate_identity().skip_norm_wip();
                        if let ty::Adt(ad, _) = st.kind() {
                            let nm = self.tcx.item_name(ad.did()).to_string();
                            if CTOR_ADTS.contains(&nm.as_str()) {
                                let na = self.tr.node_args(f.hir_id);
                                if let Some(t) = na.types().last() {
                                    self.rows.push((did, t, e, args));
                                }
                            }
                        }
                    }
                }
            }
        }
        intravisit::walk_expr(self, e);
    }
}

pub fn dump_all<'tcx>(tcx: TyCtxt<'tcx>, krate: &str, out: &mut Out) {
    let max_depth: usize = std::env::var("GDBFACTS_DEPTH").ok().and_then(|v| v.parse().ok()).unwrap_or(6);
    if std::env::var("GDBFACTS_NOINST").is_ok() {
        return;
    }
    let env = TypingEnv::fully_monomorphized();
    let mut queue: VecDeque<(DefId, GenericArgsRef<'tcx>, usize)> = VecDeque::new();
    let mut seen: HashSet<(DefId, GenericArgsRef<'tcx>)> = HashSet::new();
    let mut nrows = 0;
    let mut seen_consts: HashSet<(DefId, GenericArgsRef<'tcx>)> = HashSet::new();

    for ldid in tcx.hir_body_owners() {
        let did = ldid.to_def_id();
        if !matches!(tcx.def_kind(did), DefKind::Const { .. } | DefKind::AssocConst { .. } | DefKind::Static { .. }) {
            continue;
        }
        let tr = tcx.typeck(ldid);
        let body = tcx.hir_body_owned_by(ldid);
        let mut rf = RowFinder { tcx, tr, rows: Vec::new() };
        rf.visit_expr(body.value);
        let ser = Ser { tcx, tr };
        for (ord, (ctor, impl_ty, call, cargs)) in rf.rows.iter().enumerate() {
            nrows += 1;
            let (file, line, _) = span_file_line(tcx, call.span);
            // which workspace traits bound the ctor's type parameter?
            let preds = tcx.predicates_of(*ctor);
            let mut traits: Vec<DefId> = Vec::new();
            for (p, _) in preds.predicates.iter() {
                if let Some(tp) = p.as_trait_clause() {
                    let tp = tp.skip_binder();
                    if tp.self_ty().is_param(0) || matches!(tp.self_ty().kind(), ty::Param(_)) {
                        if is_ws(tcx, tp.def_id()) {
                            traits.push(tp.def_id());
                        }
                    }
                }
            }
            let mut methods = Vec::new();
            if !impl_ty.has_non_region_param() {
                // the constructor itself (it references F::VTABLE, whose closures call the
                // trait methods with their own generic parameters instantiated)
                let cargs = tr.node_args(match &call.kind { hir::ExprKind::Call(f, _) => f.hir_id, _ => call.hir_id });
                if !cargs.has_non_region_param() {
                    methods.push(J::Obj(vec![("name", s("<ctor>")), ("def", s(def_path(tcx, *ctor))), ("inst", s(inst_key(tcx, *ctor, cargs)))]));
                    if seen.insert((*ctor, cargs)) {
                        queue.push_back((*ctor, cargs, 0));
                    }
                }
                for trd in &traits {
                    for it in tcx.associated_items(*trd).in_definition_order() {
                        if !it.is_fn() {
                            continue;
                        }
                        let g = tcx.generics_of(it.def_id);
                        if g.own_params.iter().any(|p| !matches!(p.kind, ty::GenericParamDefKind::Lifetime)) {
                            continue;
                        }
                        if tcx.generics_of(*trd).count() != 1 {
                            continue;
                        }
                        let args = GenericArgs::for_item(tcx, it.def_id, |param, _| {
                            if param.index == 0 { (*impl_ty).into() } else { tcx.lifetimes.re_erased.into() }
                        });
                        if let Ok(Some(inst)) = Instance::try_resolve(tcx, env, it.def_id, args) {
                            if let ty::InstanceKind::Item(rd) = inst.def {
                                methods.push(J::Obj(vec![
                                    ("name", s(it.name().to_string())),
                                    ("def", s(def_path(tcx, rd))),
                                    ("inst", s(inst_key(tcx, rd, inst.args))),
                                ]));
                                if seen.insert((rd, inst.args)) {
                                    queue.push_back((rd, inst.args, 0));
                                }
                            }
                        }
                    }
                }
            }
            let o = J::Obj(vec![
                ("t", s("row")),
                ("krate", s(krate)),
                ("const", s(def_path(tcx, did))),
                ("ord", J::Int(ord as i128)),
                ("ctor", s(def_path(tcx, *ctor))),
                ("impl_ty", s(impl_ty.to_string())),
                ("traits", J::Arr(traits.iter().map(|t| s(def_path(tcx, *t))).collect())),
                ("file", s(file)),
                ("line", J::Int(line)),
                ("args", J::Arr(cargs.iter().map(|a| ser.expr(a, 12)).collect())),
                ("methods", J::Arr(methods)),
            ]);
            out.line(&o.to_string());
        }
    }

    // walk
    let mut ninst = 0;
    let mut memo_ok: HashMap<DefId, bool> = HashMap::new();
    while let Some((did, args, depth)) = queue.pop_front() {
        let ok = *memo_ok.entry(did).or_insert_with(|| {
            is_ws(tcx, did) && matches!(tcx.def_kind(did), DefKind::Fn | DefKind::AssocFn | DefKind::Closure) && tcx.is_mir_available(did)
        });
        if !ok || args.has_non_region_param() {
            continue;
        }
        let body = tcx.optimized_mir(did);
        let mut enc = Enc { tcx, body, env, subst: Some(args), callees: Vec::new(), consts: Vec::new(), depth: 0 };
        let mut o = fn_header(tcx, krate, did);
        o.insert(0, ("t", s("inst")));
        o.insert(1, ("key", s(inst_key(tcx, did, args))));
        o.push(("iargs", J::Arr(args.iter().filter(|a| a.as_region().is_none()).map(|a| s(a.to_string())).collect())));
        o.push(("depth", J::Int(depth as i128)));
        o.push(("argc", J::Int(body.arg_count as i128)));
        o.push(("locals", enc.locals()));
        o.push(("vars", enc.var_names()));
        o.push(("bbs", enc.blocks()));
        let mut cal = Vec::new();
        let callees = std::mem::take(&mut enc.callees);
        for (cd, ca) in callees {
            if !is_ws(tcx, cd) {
                continue;
            }
            cal.push(s(inst_key(tcx, cd, ca)));
            if depth + 1 <= max_depth && seen.insert((cd, ca)) {
                queue.push_back((cd, ca, depth + 1));
            }
        }
        // referenced assoc consts: enter their bodies (and promoteds) to find closures (vtables)
        let consts = std::mem::take(&mut enc.consts);
        for (cd, ca) in consts {
            if !is_ws(tcx, cd) || ca.has_non_region_param() {
                continue;
            }
            let (rd, ra) = match tcx.def_kind(cd) {
                DefKind::AssocConst { .. } => match Instance::try_resolve(tcx, env, cd, ca) {
                    Ok(Some(i)) => (i.def_id(), i.args),
                    _ => continue,
                },
                DefKind::Const { .. } => (cd, ca),
                _ => continue,
            };
            if !is_ws(tcx, rd) || !seen_consts.insert((rd, ra)) {
                // still link it
                cal.push(s(format!("const:{}", inst_key(tcx, rd, ra))));
                continue;
            }
            cal.push(s(format!("const:{}", inst_key(tcx, rd, ra))));
            let mut bodies: Vec<&rustc_middle::mir::Body<'tcx>> = Vec::new();
            if tcx.is_mir_available(rd) || rd.is_local() {
                bodies.push(tcx.mir_for_ctfe(rd));
                for b in tcx.promoted_mir(rd).iter() {
                    bodies.push(b);
                }
            }
            let mut ccal = Vec::new();
            for b in bodies {
                let mut e2 = Enc { tcx, body: b, env, subst: Some(ra), callees: Vec::new(), consts: Vec::new(), depth: 0 };
                let _ = e2.blocks();
                for (d2, a2) in std::mem::take(&mut e2.callees) {
                    if !is_ws(tcx, d2) {
                        continue;
                    }
                    ccal.push(s(inst_key(tcx, d2, a2)));
                    if depth + 1 <= max_depth && seen.insert((d2, a2)) {
                        queue.push_back((d2, a2, depth + 1));
                    }
                }
            }
            out.line(&J::Obj(vec![
                ("t", s("instconst")),
                ("key", s(format!("const:{}", inst_key(tcx, rd, ra)))),
                ("krate", s(krate)),
                ("callees", J::Arr(ccal)),
            ]).to_string());
        }
        o.push(("callees", J::Arr(cal)));
        out.line(&J::Obj(o).to_string());
        ninst += 1;
    }
    out.line(&J::Obj(vec![("t", s("instmeta")), ("krate", s(krate)), ("rows", J::Int(nrows)), ("insts", J::Int(ninst))]).to_string());
}
